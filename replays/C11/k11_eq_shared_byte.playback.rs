// Kani concrete playback for harness k11_eq_shared_byte (module c10k.rs)
// replay: vcheck.py --replay /verif/replays/C11/k11_eq_shared_byte.playback.rs
#[test]
fn kani_concrete_playback_k11_eq_shared_byte_14067592759140061426() {
    let concrete_vals: Vec<Vec<u8>> = vec![
        // 130
        vec![130],
        // 146
        vec![146],
        // 105
        vec![105],
        // 52
        vec![52],
        // 10ul
        vec![10, 0, 0, 0, 0, 0, 0, 0],
        // 16ul
        vec![16, 0, 0, 0, 0, 0, 0, 0],
    ];
    kani::concrete_playback_run(concrete_vals, k11_eq_shared_byte);
}