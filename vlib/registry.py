"""Which harnesses decide which property, with their bounds (DESIGN.md §2)."""
from .kani import Harness as H

STANDING_ASSUMPTIONS = [
    "Kani 0.68.0 / CBMC 6.11.0 / CaDiCaL are sound; Kani's model of the Rust dev profile (overflow checks and debug assertions on) on its own pinned toolchain (nightly-2026-08-21) stands for the shipped build; counterexamples are additionally replayed natively",
    "allocation never fails (--no-malloc-may-fail)",
    "every verdict is bounded: loops/recursion are unrolled to the stated unwind bounds with unwinding assertions ON, so a bound that is too small is reported as inconclusive, never as a pass",
]

# unwindset rule shorthands -------------------------------------------------
BITITER_NEXT_REC = (r"BitIter<.*> as .*Iterator>::next$", "rec", 3)
WRITE_BIT_REC = (r"BitWriter::<.*>::write_bit$", "rec", 3)

PROPS = {}

def nat_rules(levels, bits):
    """unwindset for the natural-number codec: `levels` = iterations of the
    per-level loops (+ slack), `bits` = iterations of the per-bit loops"""
    return [BITITER_NEXT_REC, WRITE_BIT_REC,
            (r"BitWriter::<.*>::write_bits_be$", "*", bits),
            (r"::read_natural::<", ("rank", 0), levels),   # unary prefix loop
            (r"::read_natural::<", ("rank", 1), levels),   # per-level loop
            (r"::read_natural::<", ("rank", 2), bits),     # per-bit loop
            (r"encode_natural::<", "*", levels)]


PROPS["C13"] = {
    "filters": ["k13_"],
    "functions": [
        "BitIter::{next,read_bit,read_u2,read_u8,read_natural,n_total_read,close,byte_slice_window}",
        "BitWriter::{write_bit,write_bits_be,flush_all,n_total_written,<io::Write>::write}",
        "encode_natural", "BitCollector::collect_bits",
    ],
    "bounds": "reader/writer/window/close: 3 symbolic bytes, 4 operations of symbolic kind, every alignment; "
              "naturals: quick n in [1,2^16) (u32/usize/u16 result types, symbolic bound), thorough adds [2^16,2^32) and "
              "[2^32,2^34) must-reject; decoder canonicity: arbitrary 3..6-byte strings split by unary-prefix length k=0..6",
    "outside": "strings longer than 6 bytes, op sequences longer than 4, write failure (infallible sink)",
    "assumptions": ["io sink is infallible (harness Sink)"],
    "harnesses": [
        H("k13_1_reader_ops", timeout=300),
        H("k13_2_window_bits", timeout=300),
        H("k13_2_window_u8", timeout=300),
        H("k13_3_close", timeout=300),
        H("k13_4_writer_ops", timeout=900, unwindset=[BITITER_NEXT_REC, WRITE_BIT_REC]),
        H("k13_4_writer_bytes", timeout=900, unwindset=[BITITER_NEXT_REC, WRITE_BIT_REC]),
        H("k13_4_collect_bits", timeout=900, unwindset=[BITITER_NEXT_REC, WRITE_BIT_REC]),
        H("k13_5_nat_roundtrip_u16range", timeout=1500, mem_gb=12, unwind=5, unwindset=nat_rules(6, 17)),
        H("k13_5_nat_u16_result", timeout=1500, mem_gb=12, unwind=5, unwindset=nat_rules(6, 18)),
        H("k13_5_nat_usize_result", timeout=1500, mem_gb=12, unwind=5, unwindset=nat_rules(6, 17)),
        H("k13_5_nat_roundtrip_u32range", tiers=("thorough",), timeout=3000, mem_gb=16, unwind=5,
          unwindset=nat_rules(7, 33)),
        H("k13_5_nat_too_large_rejected", tiers=("thorough",), timeout=3000, mem_gb=16, core=False, unwind=5,
          unwindset=nat_rules(7, 35)),
        H("k13_6_canon_k0", timeout=600, unwind=5, unwindset=nat_rules(3, 3)),
        H("k13_6_canon_k1", timeout=600, unwind=5, unwindset=nat_rules(4, 3)),
        H("k13_6_canon_k2", timeout=600, unwind=5, unwindset=nat_rules(5, 5)),
        H("k13_6_canon_k3", timeout=1500, mem_gb=12, unwind=5, unwindset=nat_rules(6, 17)),
        H("k13_6_canon_k4", tiers=("thorough",), timeout=3000, mem_gb=16, unwind=5, unwindset=nat_rules(7, 33)),
        H("k13_6_canon_k5", tiers=("thorough",), timeout=3000, mem_gb=16, unwind=5, unwindset=nat_rules(8, 33)),
        H("k13_6_canon_k6", tiers=("thorough",), timeout=3000, mem_gb=16, core=False, unwind=5,
          unwindset=nat_rules(9, 33)),
    ],
}

PROPS["C19"] = {
    "engine": "mir",
    "assumptions": [
        "Vec<Vec<u8>>::consensus_encode returns cs(n) + sum(cs(len_i) + len_i) with the Bitcoin/Elements CompactSize rule cs = 1/3/5/9 at 253 / 2^16 / 2^32 (environment model; validated on every run against the native encoder on the translator-validation vectors)",
        "once(0x50).chain(repeat(0).take(p)).collect::<Vec<u8>>() has length 1+p, first byte 0x50, rest 0 (model of core iterators)",
        "models of core integer helpers (saturating_add/sub/mul, TryFrom between unsigned ints, From<u32> for u64, Result::expect/unwrap_or, default PartialOrd::le over the type's own partial_cmp) as written in vlib/mir2smt.py",
        "rustc nightly's MIR (overflow checks on, debug assertions off) reflects the shipped semantics; z3 5.1.0 and cvc5 1.0.3 agree on every query",
    ],
}

# ---------------------------------------------------------------- value family (C10, C11)
def ty_stats(code):
    """(padded width, oracle nodes, depth incl. word expansion) of a postfix type code"""
    st = []
    n = 0
    for c in code:
        n += 1
        if c == "u":
            st.append((0, 0))
        elif c in "bcny":
            k = {"b": 0, "c": 1, "n": 2, "y": 3}[c]
            st.append((1 << k, k + 1))
        else:
            (wr, dr), (wl, dl) = st.pop(), st.pop()
            st.append(((1 + max(wl, wr)) if c == "+" else (wl + wr), 1 + max(dl, dr)))
    (w, d) = st[0]
    return w, n, d


def val_rules(code, lead=0, extra=()):
    """unwindset for the value family, derived from the type shape: loops whose
    exit CBMC cannot fold to a constant are unrolled to exactly these bounds
    (unwinding assertions make a too-small bound an *inconclusive*, never a pass)"""
    w, n, d = ty_stats(code)
    w += lead
    n += 2 * lead
    d += lead
    return [
        BITITER_NEXT_REC,
        (r"^memcmp$", "*", 34),                  # [u8; 32] equality (TMR comparison)
        (r"^(vals|c10|c11|hcons)::", "*", 34),
        (r"vals::(mark|n_paths|fix_tags)$", "rec", 8),
        (r"Value::from_compact_bits", "*", 2 * n + 3),
        (r"Value::from_padded_bits", ("rank", 0), w // 8 + 2),
        (r"Value::from_padded_bits", ("rank", 1), 9),
        (r"Value::prune", "*", 3 * n + 3),
        (r"CompactBitsIter<'_> as std::iter::Iterator>::next", "*", d + 3),
        (r"CompactBitsIter<'_> as std::iter::Iterator>::fold", "*", w + 2),
        (r"value::copy_bits", "*", w + 2),
        (r"BitCollector>::collect_bits", "*", w + 2),
        (r"Iterator>::fold::<u8", "*", 10),
        (r"extend_with", "*", 10),
    ] + list(extra)


PROPS["C10"] = {
    "filters": ["k10_", "kprobe_"],
    "functions": [],
    "harnesses": [
        H("k10_probe_1pb_dec", timeout=600, unwind=8, unwindset=val_rules("ub+")),
        H("kprobe_compact_len", timeout=200, unwind=8, unwindset=val_rules("ub+")),
        H("kprobe_build_only", timeout=200, unwind=8, unwindset=val_rules("ub+")),
        H("kprobe_build_only_realsha", timeout=300, unwind=8, unwindset=val_rules("ub+")),
        H("kprobe_build_only_tmrstub", timeout=200, unwind=8, unwindset=val_rules("ub+")),
        H("kprobe_produce_only_tmrstub", timeout=200, unwind=8, unwindset=val_rules("ub+")),
        H("kprobe_compact_len_tmrstub", timeout=300, unwind=8, unwindset=val_rules("ub+")),
        H("kprobe_compact_len_tmrstub_push", timeout=300, unwind=8, unwindset=val_rules("ub+")),
        H("kprobe_produce_only", timeout=200, unwind=8, unwindset=val_rules("ub+")),
        H("kprobe_compact_len_pushstub", timeout=200, unwind=8, unwindset=val_rules("ub+")),
    ],
}

PROPS["C14"] = {
    "engine": "mir",
    "assumptions": [
        "the bit reader is modelled as a stream of up to 24 symbolic bits with a cursor (Iterator::next returns the next bit or None at the symbolic end); BitWriter::write_bits_be(n, len) is modelled as emitting the len low bits of n, most significant first (both are checked on the real code under C13)",
        "variant <-> discriminant <-> name tables are read from the compiled MIR of the derived Debug impl and of Display; every table is validated against the native build (encode, decode, Display, FromStr of every jet) on every run",
        "str equality is modelled as equality of interned identifiers of the string constants",
    ],
}
