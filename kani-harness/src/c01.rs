//! C01 (layer 1: node framing round-trip) and C02 (layer 1: the node decoder
//! is total and only produces backward references) over the real private
//! `encode_node` / `decode_node`, reached through the verif-hooks.
//!
//! Nodes are built with `Node::from_parts` for a harness-defined `Marker`
//! (no cached data, no type inference) - the encoder only looks at the
//! combinator, the iterator indices and the fail/hidden/jet payload.
use crate::hcons::cons;
use crate::sink::Sink;
use simplicity::decode::verif_hooks::{decode_node, DecodedNode};
use simplicity::encode::verif_hooks::{encode_hidden_at, encode_node_at};
use simplicity::jet::type_name::TypeName;
use simplicity::jet::Jet;
use simplicity::node::{Inner, Marker, Node};
use simplicity::{BitIter, BitWriter, Cmr, Cost, FailEntropy};
use std::io;
use std::sync::Arc;

#[derive(Copy, Clone, PartialEq, Eq, PartialOrd, Ord, Debug, Hash)]
pub enum M {}
impl Marker for M {
    type CachedData = ();
    type Witness = ();
    type Disconnect = Option<Arc<Node<M>>>;
    type SharingId = Cmr;
    fn compute_sharing_id(cmr: Cmr, _: &()) -> Option<Cmr> {
        Some(cmr)
    }
}

/// A two-jet family with codes `0` and `10` (the real families' tables are C14's subject).
#[derive(Copy, Clone, PartialEq, Eq, PartialOrd, Ord, Debug, Hash)]
pub enum TinyJet {
    A,
    B,
}
impl std::fmt::Display for TinyJet {
    fn fmt(&self, f: &mut std::fmt::Formatter) -> std::fmt::Result {
        f.write_str(match self {
            TinyJet::A => "a",
            TinyJet::B => "b",
        })
    }
}
impl Jet for TinyJet {
    fn cmr(&self) -> Cmr {
        Cmr::from_byte_array([if *self == TinyJet::A { 0x11 } else { 0x22 }; 32])
    }
    fn source_ty(&self) -> TypeName {
        TypeName(b"1")
    }
    fn target_ty(&self) -> TypeName {
        TypeName(b"1")
    }
    fn encode(&self, w: &mut BitWriter<&mut dyn io::Write>) -> io::Result<usize> {
        match self {
            TinyJet::A => w.write_bits_be(0b0, 1),
            TinyJet::B => w.write_bits_be(0b10, 2),
        }
    }
    fn decode<I: Iterator<Item = u8>>(bits: &mut BitIter<I>) -> Result<Self, simplicity::decode::Error> {
        match bits.next() {
            None => Err(simplicity::decode::Error::EndOfStream),
            Some(false) => Ok(TinyJet::A),
            Some(true) => match bits.next() {
                None => Err(simplicity::decode::Error::EndOfStream),
                Some(false) => Ok(TinyJet::B),
                Some(true) => Err(simplicity::decode::Error::InvalidJet),
            },
        }
    }
    fn cost(&self) -> Cost {
        Cost::from_milliweight(1)
    }
    fn parse(s: &str) -> Result<Self, simplicity::Error> {
        match s {
            "a" => Ok(TinyJet::A),
            "b" => Ok(TinyJet::B),
            _ => Err(simplicity::Error::InvalidJetName(String::new())),
        }
    }
}

pub fn stub_cmr1(c: Cmr) -> Cmr {
    Cmr::from_byte_array(cons(11, c.to_byte_array(), [0; 32]))
}
pub fn stub_cmr2(a: Cmr, b: Cmr) -> Cmr {
    Cmr::from_byte_array(cons(12, a.to_byte_array(), b.to_byte_array()))
}
pub fn stub_cmr_fail(_e: FailEntropy) -> Cmr {
    Cmr::from_byte_array([0xfa; 32])
}

fn refbit(data: &[u8], p: usize) -> bool {
    (data[p / 8] >> (7 - (p % 8))) & 1 == 1
}

fn leaf() -> Arc<Node<M>> {
    Arc::new(Node::from_parts(Inner::Unit, ()))
}

/// kinds: 0 iden 1 unit 2 injl 3 injr 4 take 5 drop 6 comp 7 case 8 pair
/// 9 disconnect(2 children) 10 disconnect(1 child) 11 witness 12 fail 13 jet
/// 14 assertl 15 assertr (encoded as case)
fn build(kind: u8, entropy: [u8; 64], jet_b: bool, hidden: [u8; 32]) -> Node<M> {
    let c = leaf();
    let d = leaf();
    let inner = match kind {
        0 => Inner::Iden,
        1 => Inner::Unit,
        2 => Inner::InjL(c),
        3 => Inner::InjR(c),
        4 => Inner::Take(c),
        5 => Inner::Drop(c),
        6 => Inner::Comp(c, d),
        7 => Inner::Case(c, d),
        8 => Inner::Pair(c, d),
        9 => Inner::Disconnect(c, Some(d)),
        10 => Inner::Disconnect(c, None),
        11 => Inner::Witness(()),
        12 => Inner::Fail(FailEntropy::from_byte_array(entropy)),
        13 => Inner::Jet(Box::new(if jet_b { TinyJet::B } else { TinyJet::A })),
        14 => Inner::AssertL(c, Cmr::from_byte_array(hidden)),
        _ => Inner::AssertR(Cmr::from_byte_array(hidden), c),
    };
    Node::from_parts(inner, ())
}

fn arity(kind: u8) -> usize {
    match kind {
        0 | 1 | 11 | 12 | 13 => 0,
        2 | 3 | 4 | 5 | 10 => 1,
        _ => 2,
    }
}

/// encode one node at a symbolic position with symbolic child positions, then
/// decode it back at the same position: same combinator, same absolute child
/// indices, same payload, and exactly the written bits are consumed.
fn framing_roundtrip(kind: u8) {
    let index: usize = kani::any();
    kani::assume(index >= 1 && index <= 15);
    let li: usize = kani::any();
    let ri: usize = kani::any();
    kani::assume(li < index && ri < index);
    let entropy: [u8; 64] = if kind == 12 { kani::any() } else { [0; 64] };
    let hidden: [u8; 32] = if kind >= 14 { kani::any() } else { [0; 32] };
    let jet_b: bool = kani::any();
    let node = build(kind, entropy, jet_b, hidden);
    let ar = arity(kind);
    let mut sink = Sink::<72>::new();
    let written;
    {
        let dynw: &mut dyn io::Write = &mut sink;
        let mut w = BitWriter::new(dynw);
        encode_node_at(
            &node,
            index,
            if ar >= 1 { Some(li) } else { None },
            if ar >= 2 { Some(ri) } else { None },
            &mut w,
        )
        .unwrap();
        written = w.n_total_written();
        w.flush_all().unwrap();
    }
    let mut it = BitIter::from(&sink.buf[..sink.len]);
    let got = decode_node::<_, TinyJet>(&mut it, index);
    assert!(got.is_ok(), "an encoded node does not decode");
    assert!(it.n_total_read() == written, "decoder consumed a different number of bits than the encoder wrote");
    let ok = match (kind, got.unwrap()) {
        (0, DecodedNode::Iden) | (1, DecodedNode::Unit) | (11, DecodedNode::Witness) => true,
        (2, DecodedNode::InjL(i)) | (3, DecodedNode::InjR(i)) | (4, DecodedNode::Take(i)) | (5, DecodedNode::Drop(i))
        | (10, DecodedNode::Disconnect1(i)) => i == li,
        (6, DecodedNode::Comp(i, j)) | (7, DecodedNode::Case(i, j)) | (8, DecodedNode::Pair(i, j))
        | (9, DecodedNode::Disconnect(i, j)) | (14, DecodedNode::Case(i, j)) | (15, DecodedNode::Case(i, j)) => i == li && j == ri,
        (12, DecodedNode::Fail(e)) => {
            let q: usize = kani::any();
            kani::assume(q < 64);
            e.to_byte_array()[q] == entropy[q]
        }
        (13, DecodedNode::Jet(j)) => {
            let want = if jet_b { TinyJet::B } else { TinyJet::A };
            let r = j.as_any().downcast_ref::<TinyJet>() == Some(&want);
            std::mem::forget(j);
            r
        }
        _ => false,
    };
    assert!(ok, "decoded node differs from the encoded one");
    kani::cover!(index - li >= 8, "three-level natural for a back reference");
    std::mem::forget(node);
}

macro_rules! framing {
    ($name:ident, $kind:expr) => {
        #[kani::proof]
        #[kani::unwind(5)]
        #[kani::stub(simplicity::Cmr::injl, stub_cmr1)]
        #[kani::stub(simplicity::Cmr::injr, stub_cmr1)]
        #[kani::stub(simplicity::Cmr::take, stub_cmr1)]
        #[kani::stub(simplicity::Cmr::drop, stub_cmr1)]
        #[kani::stub(simplicity::Cmr::disconnect, stub_cmr1)]
        #[kani::stub(simplicity::Cmr::comp, stub_cmr2)]
        #[kani::stub(simplicity::Cmr::case, stub_cmr2)]
        #[kani::stub(simplicity::Cmr::pair, stub_cmr2)]
        #[kani::stub(simplicity::Cmr::fail, stub_cmr_fail)]
        #[kani::stub(std::sync::Arc::drop_slow, crate::hcons::stub_arc_drop_slow)]
        #[kani::stub(simplicity::types::precomputed::nth_power_of_2, crate::vals::stub_nth_power_of_2)]
        #[kani::stub(simplicity::Tmr::sum, crate::hcons::stub_tmr_sum)]
        #[kani::stub(simplicity::Tmr::product, crate::hcons::stub_tmr_product)]
        fn $name() {
            framing_roundtrip($kind)
        }
    };
}
framing!(k01_frame_iden, 0);
framing!(k01_frame_unit, 1);
framing!(k01_frame_injl, 2);
framing!(k01_frame_injr, 3);
framing!(k01_frame_take, 4);
framing!(k01_frame_drop, 5);
framing!(k01_frame_comp, 6);
framing!(k01_frame_case, 7);
framing!(k01_frame_pair, 8);
framing!(k01_frame_disconnect2, 9);
framing!(k01_frame_disconnect1, 10);
framing!(k01_frame_witness, 11);
framing!(k01_frame_fail, 12);
framing!(k01_frame_jet, 13);
framing!(k01_frame_assertl, 14);
framing!(k01_frame_assertr, 15);

/// Hidden nodes: `0110` + 32 bytes, decode back to the same CMR.
#[kani::proof]
#[kani::unwind(5)]
#[kani::stub(std::sync::Arc::drop_slow, crate::hcons::stub_arc_drop_slow)]
#[kani::stub(simplicity::types::precomputed::nth_power_of_2, crate::vals::stub_nth_power_of_2)]
#[kani::stub(simplicity::Tmr::sum, crate::hcons::stub_tmr_sum)]
#[kani::stub(simplicity::Tmr::product, crate::hcons::stub_tmr_product)]
fn k01_frame_hidden() {
    let h: [u8; 32] = kani::any();
    let index: usize = kani::any();
    kani::assume(index <= 255);
    let mut sink = Sink::<40>::new();
    let written;
    {
        let dynw: &mut dyn io::Write = &mut sink;
        let mut w = BitWriter::new(dynw);
        encode_hidden_at::<M>(Cmr::from_byte_array(h), index, &mut w).unwrap();
        written = w.n_total_written();
        w.flush_all().unwrap();
    }
    assert!(written == 4 + 256);
    let mut it = BitIter::from(&sink.buf[..sink.len]);
    match decode_node::<_, TinyJet>(&mut it, index) {
        Ok(DecodedNode::Hidden(c)) => {
            let q: usize = kani::any();
            kani::assume(q < 32);
            assert!(c.to_byte_array()[q] == h[q], "hidden CMR changed");
        }
        _ => panic!("hidden node does not decode to a hidden node"),
    }
    assert!(it.n_total_read() == written);
}

// ---------------------------------------------------------------- C02 layer 1
/// An `EarlyEndOfStreamError` (non-exhaustive: only the library can make one).
fn eos() -> simplicity::EarlyEndOfStreamError {
    let e: [u8; 0] = [];
    BitIter::from(&e[..]).read_bit().unwrap_err()
}

/// Contract of `BitIter::read_natural(bound)` used in place of its body
/// (assume-guarantee): `Ok(n)` implies `n >= 1` and, with a bound, `n <= bound`;
/// any error may be returned. The body itself is verified against exactly this
/// contract (and more) on arbitrary strings by C13's `k13_6_canon_k*` harnesses.
pub fn contract_read_natural<N, I: Iterator<Item = u8>>(
    _this: &mut BitIter<I>,
    bound: Option<N>,
) -> Result<N, simplicity::DecodeNaturalError>
where
    N: TryFrom<u32> + PartialOrd,
    u32: TryFrom<N>,
    usize: TryFrom<N>,
{
    let fail: u8 = kani::any();
    match fail {
        0 => {
            let n: u32 = kani::any();
            kani::assume(n >= 1);
            match N::try_from(n) {
                Ok(ret) => {
                    if let Some(b) = bound {
                        kani::assume(!(ret > b));
                    }
                    Ok(ret)
                }
                Err(_) => Err(simplicity::DecodeNaturalError::Overflow),
            }
        }
        1 => Err(simplicity::DecodeNaturalError::Overflow),
        2 => Err(simplicity::DecodeNaturalError::EndOfStream(eos())),
        _ => Err(simplicity::DecodeNaturalError::BadIndex { got: kani::any(), max: kani::any() }),
    }
}

/// Model of `Word::from_bits` (the value decoder behind it is outside what
/// CBMC can execute, DESIGN.md 1.4): either the stream ends or a word comes back.
pub fn model_word_from_bits<I: Iterator<Item = u8>>(
    _bits: &mut BitIter<I>,
    n: u32,
) -> Result<simplicity::Word, simplicity::EarlyEndOfStreamError> {
    assert!(n <= 31, "Word::from_bits called with n > 31 (it panics there)");
    if kani::any() {
        Err(eos())
    } else {
        Ok(simplicity::Word::u8(kani::any()))
    }
}

/// Arbitrary bytes (with the leading `nbits` code bits fixed to `code`, one
/// harness per node class, so that the other classes' paths are infeasible) at
/// an arbitrary position: the node decoder never panics or overflows, and any
/// child reference it returns points strictly backwards.
fn class_total<const NB: usize>(code: u8, nbits: usize) {
    class_total_k::<NB>(code, nbits, usize::MAX, 0)
}

/// `nat_at`/`max_k`: restrict the natural number starting at bit `nat_at` to a
/// unary prefix of at most `max_k` ones (back references below 2^(2^max_k)); used
/// by the quick tier so that the bit loops of `read_natural` stay short.
fn class_total_k<const NB: usize>(code: u8, nbits: usize, nat_at: usize, max_k: usize) {
    let mut data: [u8; NB] = kani::any();
    let keep = 0xffu8 >> nbits;
    data[0] = (code << (8 - nbits)) | (data[0] & keep);
    if nat_at != usize::MAX {
        let mut all_ones = true;
        let mut i = 0;
        while i <= max_k {
            all_ones &= refbit(&data, nat_at + i);
            i += 1;
        }
        kani::assume(!all_ones);
    }
    let len: usize = kani::any();
    kani::assume(len >= 1 && len <= NB);
    let index: usize = kani::any();
    let mut it = BitIter::from(&data[..len]);
    let r = decode_node::<_, TinyJet>(&mut it, index);
    assert!(it.n_total_read() <= 8 * len);
    match r {
        Ok(n) => {
            let ok = match &n {
                DecodedNode::InjL(i) | DecodedNode::InjR(i) | DecodedNode::Take(i) | DecodedNode::Drop(i)
                | DecodedNode::Disconnect1(i) => *i < index,
                DecodedNode::Comp(i, j) | DecodedNode::Case(i, j) | DecodedNode::Pair(i, j) | DecodedNode::Disconnect(i, j) => {
                    *i < index && *j < index
                }
                _ => true,
            };
            assert!(ok, "decoded node refers to itself or forwards");
            kani::cover!(true, "decoded a node");
            std::mem::forget(n);
        }
        Err(e) => {
            std::mem::forget(e);
        }
    }
}

macro_rules! total {
    ($name:ident, $nb:expr, $code:expr, $nbits:expr) => {
        #[kani::proof]
        #[kani::unwind(5)]
        #[kani::stub(std::sync::Arc::drop_slow, crate::hcons::stub_arc_drop_slow)]
        #[kani::stub(simplicity::types::precomputed::nth_power_of_2, crate::vals::stub_nth_power_of_2)]
        #[kani::stub(simplicity::Tmr::sum, crate::hcons::stub_tmr_sum)]
        #[kani::stub(simplicity::Tmr::product, crate::hcons::stub_tmr_product)]
        #[kani::stub(simplicity::Word::from_bits, model_word_from_bits)]
        fn $name() {
            class_total::<$nb>($code, $nbits)
        }
    };
}
// classes without a back reference (quick)
total!(k02_total_iden_unit, 2, 0b0100, 4); // 0100x: iden / unit
total!(k02_total_fail, 66, 0b01010, 5); // 64 entropy bytes
total!(k02_total_witness, 2, 0b0111, 4);
total!(k02_total_hidden, 34, 0b0110, 4); // 32 CMR bytes
total!(k02_total_jet, 2, 0b11, 2);
// classes with one back reference, restricted to a unary prefix of at most 2 ones (quick)
macro_rules! total_k {
    ($name:ident, $nb:expr, $code:expr, $nbits:expr, $at:expr, $k:expr) => {
        #[kani::proof]
        #[kani::unwind(5)]
        #[kani::stub(std::sync::Arc::drop_slow, crate::hcons::stub_arc_drop_slow)]
        #[kani::stub(simplicity::types::precomputed::nth_power_of_2, crate::vals::stub_nth_power_of_2)]
        #[kani::stub(simplicity::Tmr::sum, crate::hcons::stub_tmr_sum)]
        #[kani::stub(simplicity::Tmr::product, crate::hcons::stub_tmr_product)]
        #[kani::stub(simplicity::Word::from_bits, model_word_from_bits)]
        fn $name() {
            class_total_k::<$nb>($code, $nbits, $at, $k)
        }
    };
}
total_k!(k02_total_unary_k2, 3, 0b001, 3, 5, 2); // injl injr take drop, reference < 16
total_k!(k02_total_disconnect1_k2, 3, 0b01011, 5, 5, 2);
total_k!(k02_total_word_k2, 3, 0b10, 2, 2, 2); // word length field < 16
// the same classes with a unary prefix of at most 3 ones: back references below 2^16 (thorough)
total_k!(k02_total_unary_k3, 5, 0b001, 3, 5, 3);
total_k!(k02_total_disconnect1_k3, 5, 0b01011, 5, 5, 3);
total_k!(k02_total_word_k3, 5, 0b10, 2, 2, 3);
// classes with back references: the real read_natural on arbitrary bits (thorough)
total!(k02_total_unary, 6, 0b001, 3); // injl injr take drop
total!(k02_total_disconnect1, 6, 0b01011, 5);
total!(k02_total_binary, 10, 0b000, 3); // comp case pair disconnect
total!(k02_total_word, 6, 0b10, 2); // word: natural <= 32, then the (modelled) word body

/// Word nodes whose length field is a 6-bit natural (32..=63): `10` + natural
/// `1110 0 01 xxxxx`. Only 32 is a legal word length; everything above must be
/// rejected before the word body is read.
#[kani::proof]
#[kani::unwind(5)]
#[kani::stub(std::sync::Arc::drop_slow, crate::hcons::stub_arc_drop_slow)]
#[kani::stub(simplicity::types::precomputed::nth_power_of_2, crate::vals::stub_nth_power_of_2)]
#[kani::stub(simplicity::Tmr::sum, crate::hcons::stub_tmr_sum)]
#[kani::stub(simplicity::Tmr::product, crate::hcons::stub_tmr_product)]
#[kani::stub(simplicity::Word::from_bits, model_word_from_bits)]
fn k02_total_word_len6() {
    let mut data: [u8; 3] = kani::any();
    // 10 1110 0 0 | 1 xxxxx ..
    data[0] = 0b1011_1000;
    data[1] = 0b1000_0000 | (data[1] & 0x7f);
    let index: usize = kani::any();
    let mut it = BitIter::from(&data[..]);
    let r = decode_node::<_, TinyJet>(&mut it, index);
    let n = 32 + ((data[1] >> 2) & 0x1f) as usize;
    match r {
        Ok(DecodedNode::Word(w)) => {
            assert!(n == 32, "a word length above 32 was accepted");
            std::mem::forget(w);
        }
        Ok(_) => panic!("word code decoded to another node kind"),
        Err(e) => {
            kani::cover!(n == 33, "length 33 rejected");
            std::mem::forget(e);
        }
    }
    kani::cover!(n == 32, "length 32");
}
