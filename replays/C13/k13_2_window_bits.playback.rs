// Kani concrete playback for harness k13_2_window_bits (module c13.rs)
// replay: vcheck.py --replay /verif/replays/C13/k13_2_window_bits.playback.rs
#[test]
fn kani_concrete_playback_k13_2_window_bits_15945283574392007992() {
    let concrete_vals: Vec<Vec<u8>> = vec![
        // 18
        vec![18],
        // 2
        vec![2],
        // 19
        vec![19],
        // 7ul
        vec![7, 0, 0, 0, 0, 0, 0, 0],
        // 14ul
        vec![14, 0, 0, 0, 0, 0, 0, 0],
    ];
    kani::concrete_playback_run(concrete_vals, k13_2_window_bits);
}
