// Kani concrete playback for harness k11_eq_clean_prod_sum (module c10k.rs)
// replay: vcheck.py --replay /verif/replays/C11/k11_eq_clean_prod_sum.playback.rs
#[test]
fn kani_concrete_playback_k11_eq_clean_prod_sum_15719958794179094259() {
    let concrete_vals: Vec<Vec<u8>> = vec![
        // 2
        vec![2],
        // 4
        vec![4],
        // 4
        vec![4],
        // 4
        vec![4],
        // 1ul
        vec![1, 0, 0, 0, 0, 0, 0, 0],
        // 4
        vec![4],
        // 68
        vec![68],
        // 197
        vec![197],
        // 4
        vec![4],
        // 0ul
        vec![0, 0, 0, 0, 0, 0, 0, 0],
    ];
    kani::concrete_playback_run(concrete_vals, k11_eq_clean_prod_sum);
}