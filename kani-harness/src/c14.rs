//! C14 — jet tables (Rust-side clauses): codes are mutually inverse and
//! prefix-free, every jet has a code, Core jets agree with their Elements
//! namesakes behind the family prefix bit, names parse back.
use crate::sink::Sink;
use simplicity::jet::{Bitcoin, Core, Elements, Jet};
use simplicity::{BitIter, BitWriter};
use std::io;

fn refbit(data: &[u8], p: usize) -> bool {
    (data[p / 8] >> (7 - (p % 8))) & 1 == 1
}

/// encode a jet with the real `Jet::encode` into a fixed sink; returns bits written
fn enc<J: Jet>(j: &J, sink: &mut Sink<4>) -> usize {
    let dynw: &mut dyn io::Write = sink;
    let mut w = BitWriter::new(dynw);
    let n = j.encode(&mut w).unwrap();
    assert!(n == w.n_total_written());
    w.flush_all().unwrap();
    n
}

/// K14.1: arbitrary 3 bytes -> decode; if a jet comes back, its encoding is
/// exactly the consumed bits (so decoding is injective on codes and no code is
/// a proper prefix of another: the shorter one would have been returned).
fn decode_then_encode<J: Jet + PartialEq>() {
    let data: [u8; 3] = kani::any();
    let mut it = BitIter::from(&data[..]);
    match J::decode(&mut it) {
        Ok(j) => {
            let used = it.n_total_read();
            assert!(used >= 1 && used <= 24);
            let mut sink = Sink::<4>::new();
            let n = enc(&j, &mut sink);
            assert!(n == used, "jet code length differs from the bits its decoder consumed");
            let q: usize = kani::any();
            kani::assume(q < used);
            assert!(refbit(&sink.buf, q) == refbit(&data, q), "jet encodes to a different code than it was decoded from");
            kani::cover!(used >= 20, "long code decoded");
            kani::cover!(used <= 4, "short code decoded");
        }
        Err(simplicity::decode::Error::InvalidJet) => {
            kani::cover!(true, "invalid jet code");
        }
        Err(simplicity::decode::Error::EndOfStream) => {
            // only possible when all 24 bits were consumed
            assert!(it.n_total_read() == 24, "EndOfStream before the data ended");
        }
        Err(_) => panic!("unexpected decode error kind"),
    }
}

#[kani::proof]
#[kani::unwind(26)]
fn k14_1_core_decode_encode() {
    decode_then_encode::<Core>()
}
#[kani::proof]
#[kani::unwind(26)]
fn k14_1_elements_decode_encode() {
    decode_then_encode::<Elements>()
}
#[kani::proof]
#[kani::unwind(26)]
fn k14_1_bitcoin_decode_encode() {
    decode_then_encode::<Bitcoin>()
}

/// K14.2: every jet of the family (symbolic index into ALL) has a code that
/// decodes back to it, consuming exactly the written bits.
macro_rules! all_roundtrip {
    ($name:ident, $fam:ty) => {
        #[kani::proof]
        #[kani::unwind(26)]
        fn $name() {
            let i: usize = kani::any();
            kani::assume(i < <$fam>::ALL.len());
            let j = <$fam>::ALL[i];
            let mut sink = Sink::<4>::new();
            let n = enc(&j, &mut sink);
            assert!(n >= 1 && n <= 24);
            // garbage after the code must not matter
            let tail: u8 = kani::any();
            let q = n / 8;
            if n % 8 != 0 {
                sink.buf[q] |= tail & (0xffu8 >> (n % 8));
            }
            let mut it = BitIter::from(&sink.buf[..3]);
            let r = <$fam>::decode(&mut it);
            assert!(matches!(r, Ok(x) if x == j), "jet does not decode back to itself");
            assert!(it.n_total_read() == n, "decoder consumed a different number of bits than the code has");
            kani::cover!(i == <$fam>::ALL.len() - 1, "last jet");
            kani::cover!(i == 0, "first jet");
        }
    };
}
all_roundtrip!(k14_2_core_all_roundtrip, Core);
all_roundtrip!(k14_2_elements_all_roundtrip, Elements);
all_roundtrip!(k14_2_bitcoin_all_roundtrip, Bitcoin);

struct NameBuf {
    b: [u8; 48],
    n: usize,
}
impl std::fmt::Write for NameBuf {
    fn write_str(&mut self, s: &str) -> std::fmt::Result {
        let bytes = s.as_bytes();
        let mut i = 0;
        while i < bytes.len() {
            assert!(self.n < 48);
            self.b[self.n] = bytes[i];
            self.n += 1;
            i += 1;
        }
        Ok(())
    }
}

fn same_bytes(a: &[u8], b: &[u8]) -> bool {
    if a.len() != b.len() {
        return false;
    }
    let mut eq = true;
    let mut i = 0;
    while i < a.len() {
        eq &= a[i] == b[i];
        i += 1;
    }
    eq
}

/// K14.3: each Core jet, decoded as an Elements jet behind the family prefix
/// bit 0, has byte-identical source/target type names and the same name.
#[kani::proof]
#[kani::unwind(50)]
fn k14_3_core_vs_elements() {
    use std::fmt::Write;
    let i: usize = kani::any();
    kani::assume(i < Core::ALL.len());
    let c = Core::ALL[i];
    let mut sink = Sink::<4>::new();
    let n = enc(&c, &mut sink);
    // shift right by one bit: prefix 0
    let mut pre = [0u8; 4];
    let mut k = 0;
    while k < 4 {
        pre[k] = (sink.buf[k] >> 1) | if k > 0 { sink.buf[k - 1] << 7 } else { 0 };
        k += 1;
    }
    let mut it = BitIter::from(&pre[..]);
    let e = Elements::decode(&mut it);
    assert!(e.is_ok(), "Core code behind the prefix bit is not an Elements jet");
    let e = e.unwrap();
    assert!(it.n_total_read() == n + 1, "Elements namesake has a different code length");
    assert!(same_bytes(c.source_ty().0, e.source_ty().0), "source types differ between Core and Elements");
    assert!(same_bytes(c.target_ty().0, e.target_ty().0), "target types differ between Core and Elements");
    let mut a = NameBuf { b: [0; 48], n: 0 };
    let mut b = NameBuf { b: [0; 48], n: 0 };
    write!(&mut a, "{}", c).unwrap();
    write!(&mut b, "{}", e).unwrap();
    assert!(same_bytes(&a.b[..a.n], &b.b[..b.n]), "names differ between Core and Elements");
    kani::cover!(i == Core::ALL.len() - 1, "last core jet");
}

/// K14.4: the name of every jet parses back to it.
macro_rules! name_roundtrip {
    ($name:ident, $fam:ty) => {
        #[kani::proof]
        #[kani::unwind(50)]
        fn $name() {
            use std::fmt::Write;
            let i: usize = kani::any();
            kani::assume(i < <$fam>::ALL.len());
            let j = <$fam>::ALL[i];
            let mut a = NameBuf { b: [0; 48], n: 0 };
            write!(&mut a, "{}", j).unwrap();
            let s = std::str::from_utf8(&a.b[..a.n]).unwrap();
            let r = <$fam as Jet>::parse(s);
            assert!(matches!(r, Ok(x) if x == j), "jet name does not parse back to the jet");
        }
    };
}
name_roundtrip!(k14_4_core_names, Core);
name_roundtrip!(k14_4_elements_names, Elements);
name_roundtrip!(k14_4_bitcoin_names, Bitcoin);
