#!/bin/bash
# run_all.sh [quick|thorough]: every claimed check once, on /repo, default work dir; logs under .work/logs
tier=${1:-quick}
mkdir -p /verif/.work/logs
cd /verif
for p in $(python3 -c "import json; print(' '.join(c['property_id'] for c in json.load(open('MANIFEST.json'))['checks']))"); do
  echo "=== $p ($tier) $(date +%H:%M:%S)"
  python3-vt vcheck.py $p --tier $tier > .work/logs/$p.$tier.log 2>&1
  echo "exit $? : $(tail -n 1 .work/logs/$p.$tier.log | cut -c1-200)"
done
