//! Exact hash-consing stubs for Merkle-root constructors (DESIGN 1.5(1b)).
//!
//! Each distinct (kind, left, right) triple gets a fresh 32-byte id and equal
//! triples the same id: an ideal collision-free hash. Root *values* are
//! abstract; equalities and inequalities between roots computed in one run are
//! exactly those of the hashed structure.
use simplicity::Tmr;

pub const CAP: usize = 96;
static mut LEN: usize = 0;
static mut KIND: [u8; CAP] = [0; CAP];
static mut L: [[u8; 32]; CAP] = [[0; 32]; CAP];
static mut R: [[u8; 32]; CAP] = [[0; 32]; CAP];

fn same(a: &[u8; 32], b: &[u8; 32]) -> bool {
    let mut eq = true;
    let mut i = 0;
    while i < 32 {
        eq &= a[i] == b[i];
        i += 1;
    }
    eq
}

pub fn cons(kind: u8, l: [u8; 32], r: [u8; 32]) -> [u8; 32] {
    unsafe {
        let mut found = CAP;
        let mut i = 0;
        while i < LEN {
            if found == CAP && KIND[i] == kind && same(&L[i], &l) && same(&R[i], &r) {
                found = i;
            }
            i += 1;
        }
        if found == CAP {
            assert!(LEN < CAP, "hash-consing table full");
            KIND[LEN] = kind;
            L[LEN] = l;
            R[LEN] = r;
            found = LEN;
            LEN += 1;
        }
        let mut id = [0u8; 32];
        id[0] = 0xA5;
        id[1] = kind;
        id[2] = found as u8;
        id[31] = 0x5A;
        id
    }
}

pub fn stub_tmr_sum(a: Tmr, b: Tmr) -> Tmr {
    Tmr::from_byte_array(cons(1, a.to_byte_array(), b.to_byte_array()))
}

pub fn stub_tmr_product(a: Tmr, b: Tmr) -> Tmr {
    Tmr::from_byte_array(cons(2, a.to_byte_array(), b.to_byte_array()))
}

/// Stub for `Arc::drop_slow`: leak instead of running the (binary-recursive)
/// drop glue of `Arc<Final>` trees, which CBMC unrolls to the recursion bound
/// at every drop site. Deallocation is outside every claim (DESIGN 1.5(4)).
pub fn stub_arc_drop_slow<T: ?Sized, A: std::alloc::Allocator>(_this: &mut std::sync::Arc<T, A>) {}

/// Vec::push with reallocation modelled as allocate-new + element-wise typed
/// move (CBMC's byte-wise realloc destroys pointer provenance of the elements).
pub fn stub_vec_push<T, A: std::alloc::Allocator>(v: &mut Vec<T, A>, x: T) {
    let len = v.len();
    if len == v.capacity() {
        unsafe {
            // the allocator is duplicated bitwise (Global is a ZST) and the old buffer leaked
            let a: A = std::ptr::read(v.allocator());
            let mut nv: Vec<T, A> = Vec::with_capacity_in(if len == 0 { 4 } else { 2 * len }, a);
            let mut i = 0;
            while i < len {
                std::ptr::write(nv.as_mut_ptr().add(i), std::ptr::read(v.as_ptr().add(i)));
                i += 1;
            }
            v.set_len(0);
            nv.set_len(len);
            let old = std::mem::replace(v, nv);
            std::mem::forget(old);
        }
    }
    unsafe {
        std::ptr::write(v.as_mut_ptr().add(len), x);
        v.set_len(len + 1);
    }
}

