"""Engine M: symbolic execution of rustc MIR (loop-free integer kernels) into
z3 terms (DESIGN.md 1.2).

Input: the text produced by
  cargo +nightly rustc --lib -- -Zunpretty=mir -C debug-assertions=off -C overflow-checks=on
run on /repo's *current* working tree.

A function is executed path by path (its CFG must be a DAG: a back edge makes
the function "unsupported" = inconclusive). The result of executing a function
is a list of outcomes  (path_condition, kind, value)  with kind in
{'ret', 'panic'}. Machine integers are bit-vectors of their Rust width.
Anything not recognised raises Unsupported -> the check is inconclusive
(exit 2), never a verdict.
"""
import re
import sys
import z3

sys.setrecursionlimit(100000)


class Unsupported(Exception):
    pass


class NotMine(Exception):
    """raised by a model that does not apply to this call after all"""


INT_W = {"u8": 8, "u16": 16, "u32": 32, "u64": 64, "u128": 128, "usize": 64,
         "i8": 8, "i16": 16, "i32": 32, "i64": 64, "i128": 128, "isize": 64}
SIGNED = {"i8", "i16", "i32", "i64", "i128", "isize"}


class Func:
    def __init__(self, name, params, ret, locals_, blocks, text):
        self.name, self.params, self.ret = name, params, ret
        self.locals, self.blocks, self.text = locals_, blocks, text


_FN_RE = re.compile(r"^fn (.+?)\((.*)\) -> (.+?) \{$")
_FN_RE_UNIT = re.compile(r"^fn (.+?)\((.*)\) \{$")


def split_top(s, sep=","):
    """split on `sep` at nesting depth 0 of ()<>[]{}"""
    out, depth, cur = [], 0, ""
    i = 0
    while i < len(s):
        c = s[i]
        if c in "(<[{":
            depth += 1
        elif c in ")>]}":
            if c == ">" and i > 0 and s[i - 1] == "-":
                pass  # '->'
            else:
                depth -= 1
        if c == sep and depth == 0:
            out.append(cur.strip())
            cur = ""
        else:
            cur += c
        i += 1
    if cur.strip():
        out.append(cur.strip())
    return out


CONST_ITEMS = {}


def parse_mir(text):
    funcs = []
    lines = text.split("\n")
    CONST_ITEMS.clear()
    i = 0
    while i < len(lines):
        ln = lines[i]
        cm = re.match(r"^const (.+): ([^=]+?) = (.*)$", ln)
        if cm:
            name = cm.group(1).split("::")[-1]
            if cm.group(3).strip() == "{":
                j = i + 1
                while j < len(lines) and lines[j] != "}":
                    j += 1
                body = "fn %s() -> %s {\n%s\n}" % (cm.group(1), cm.group(2), "\n".join(lines[i + 1:j]))
                CONST_ITEMS.setdefault(name, []).append(("body", cm.group(1) + " : " + cm.group(2), body))
                i = j + 1
            else:
                CONST_ITEMS.setdefault(name, []).append(("expr", cm.group(1) + " : " + cm.group(2), cm.group(3).strip().rstrip(";")))
                i += 1
            continue
        if ln.startswith("fn "):
            m = _FN_RE.match(ln) or _FN_RE_UNIT.match(ln)
            j = i + 1
            while j < len(lines) and lines[j] != "}":
                j += 1
            body = lines[i + 1:j]
            if m:
                name = m.group(1)
                params = []
                for p in split_top(m.group(2)):
                    if ":" in p:
                        pn, pt = p.split(":", 1)
                        params.append((pn.strip(), pt.strip()))
                ret = m.group(3) if m.re is _FN_RE else "()"
                locals_, blocks = {}, {}
                cur = None
                for b in body:
                    s = b.strip()
                    lm = re.match(r"^let (?:mut )?(_\d+): (.+);$", s)
                    if lm:
                        locals_[lm.group(1)] = lm.group(2)
                        continue
                    bm = re.match(r"^(bb\d+)(?: \(cleanup\))?: \{$", s)
                    if bm:
                        cur = bm.group(1)
                        blocks[cur] = []
                        continue
                    if s == "}":
                        if cur is not None and b.startswith("    }"):
                            cur = None
                        continue
                    if cur is not None and s:
                        blocks[cur].append(s)
                for pn, pt in params:
                    locals_[pn] = pt
                funcs.append(Func(name, params, ret, locals_, blocks, "\n".join(lines[i:j + 1])))
            i = j + 1
        else:
            i += 1
    return funcs


def strip_generics(s):
    """remove `::<...>` turbofish segments (balanced) from a path expression"""
    out, i = "", 0
    while i < len(s):
        if s.startswith("::<", i):
            depth, j = 0, i + 2
            while j < len(s):
                if s[j] == "<":
                    depth += 1
                elif s[j] == ">" and s[j - 1] != "-":
                    depth -= 1
                    if depth == 0:
                        break
                j += 1
            i = j + 1
        else:
            out += s[i]
            i += 1
    return out


def parse_mir_keep(text):
    """parse without clearing the constant table"""
    saved = dict(CONST_ITEMS)
    r = parse_mir(text)
    CONST_ITEMS.clear()
    CONST_ITEMS.update(saved)
    return r


# ------------------------------------------------------------------ values
class Adt:
    """struct / tuple / enum variant value"""

    def __init__(self, name, fields, variant=None):
        self.name, self.fields, self.variant = name, list(fields), variant

    def __repr__(self):
        return "Adt(%s%s,%r)" % (self.name, "::" + self.variant if self.variant else "", self.fields)


class Opaque:
    def __init__(self, tag, data=None):
        self.tag, self.data = tag, data or {}

    def __repr__(self):
        return "Opaque(%s,%r)" % (self.tag, self.data)


class Ref:
    def __init__(self, val):
        self.val = val


class _Outcomes(list):
    """list of (cond, kind, value) that also snapshots the machine's store per outcome"""

    def __init__(self, mach):
        super().__init__()
        self.mach = mach
        self.stores = []

    def append(self, x):
        super().append(x)
        self.stores.append(dict(self.mach.store))


class Machine:
    """Executes MIR functions symbolically."""

    def __init__(self, funcs, models=None, max_paths=4096):
        self.funcs = funcs
        self.by_name = {}
        for f in funcs:
            self.by_name.setdefault(f.name, []).append(f)
        self.models = models or {}
        self.max_paths = max_paths
        self.encoded = []  # names of MIR functions actually executed
        self.modelled = []  # names of calls answered by a model
        self.store = {}     # path-local mutable state of models (e.g. a bit stream's cursor)
        self.out_stores = []  # store snapshot per outcome of the outermost exec_fn

    # ---- lookup
    def find(self, suffix, param_types=None, ret=None):
        """find the unique MIR function whose name ends with `suffix` and whose
        signature matches"""
        hits = []
        for f in self.funcs:
            if f.name.endswith(suffix):
                if param_types is not None and [t for _, t in f.params] != list(param_types):
                    continue
                if ret is not None and f.ret != ret:
                    continue
                hits.append(f)
        if len(hits) > 1 and all(c.name == hits[0].name and c.params == hits[0].params and c.ret == hits[0].ret for c in hits):
            hits = hits[-1:]
        if len(hits) != 1:
            raise Unsupported("function lookup %r %r -> %r: %d matches" % (suffix, param_types, ret, len(hits)))
        return hits[0]

    # ---- constants
    def const(self, s):
        s = s.strip()
        m = re.match(r"^(-?[\d_]+)_(u8|u16|u32|u64|u128|usize|i8|i16|i32|i64|i128|isize)$", s)
        if m:
            return z3.BitVecVal(int(m.group(1).replace("_", "")), INT_W[m.group(2)])
        if s in ("true", "false"):
            return z3.BoolVal(s == "true")
        m = re.match(r"^core::num::<impl (\w+)>::(MAX|MIN)$", s)
        if m:
            w = INT_W[m.group(1)]
            if m.group(1) in SIGNED:
                v = (1 << (w - 1)) - 1 if m.group(2) == "MAX" else -(1 << (w - 1))
            else:
                v = (1 << w) - 1 if m.group(2) == "MAX" else 0
            return z3.BitVecVal(v, w)
        if s.startswith('"'):
            return Opaque("str", {"s": s})
        if s == "()":
            return Adt("()", [])
        # named constant: evaluate its MIR item
        key = s.split("::")[-1]
        items = CONST_ITEMS.get(key, [])
        if "::" in s and len(items) > 1:
            qual = s.split("::")[-2]
            items = [it for it in items if qual in it[1]] or items
        if len(items) == 1:
            kind, _, payload = items[0]
            if kind == "expr":
                return self.operand({}, payload)
            f = parse_mir_keep(payload)[0]
            outs = self.exec_fn(f, [])
            rets = [v for (c, k, v) in outs if k == "ret"]
            if len(rets) == 1 and len(outs) == 1:
                return rets[0]
            raise Unsupported("constant %s does not evaluate to a single value" % s)
        return Opaque("const", {"s": s})

    # ---- places
    def read_place(self, env, p):
        p = p.strip()
        if re.match(r"^_\d+$", p):
            if p not in env:
                raise Unsupported("read of unset local %s" % p)
            return env[p]
        if p.startswith("(*") and p.endswith(")"):
            v = self.read_place(env, p[2:-1])
            if isinstance(v, Ref):
                return v.val
            raise Unsupported("deref of non-ref %r" % p)
        m = re.match(r"^\((.+)\.(\d+): (.+)\)$", p)
        if m:
            base = m.group(1).strip()
            dm = re.match(r"^\((.+) as (\w+)\)$", base)
            if dm:
                v = self.read_place(env, dm.group(1))
                if not isinstance(v, Adt) or v.variant != dm.group(2):
                    raise Unsupported("downcast %s of %r" % (dm.group(2), v))
            else:
                v = self.read_place(env, base)
            if isinstance(v, Adt):
                return v.fields[int(m.group(2))]
            raise Unsupported("field of non-adt %r (%s)" % (v, p))
        raise Unsupported("place %r" % p)

    def write_place(self, env, p, val):
        p = p.strip()
        if re.match(r"^_\d+$", p):
            env[p] = val
            return
        m = re.match(r"^\((_\d+)\.(\d+): (.+)\)$", p)
        if m:
            base = env.get(m.group(1))
            idx = int(m.group(2))
            if base is None:
                base = Adt("?", [None] * (idx + 1))
            f = list(base.fields)
            while len(f) <= idx:
                f.append(None)
            f[idx] = val
            env[m.group(1)] = Adt(base.name, f, base.variant)
            return
        raise Unsupported("write to place %r" % p)

    def operand(self, env, s):
        s = s.strip()
        if s.startswith("no_retag "):
            s = s[len("no_retag "):]
        if s.startswith("copy ") or s.startswith("move "):
            return self.read_place(env, s[5:])
        if s.startswith("const "):
            return self.const(s[6:])
        raise Unsupported("operand %r" % s)

    # ---- rvalues
    def rvalue(self, env, f, dst, rv):
        rv = rv.strip()
        pc = re.match(r"^(copy|move|const) (.+) as (.+?) \(PointerCoercion\(.*\)\)$", rv)
        if pc:
            return self.operand(env, pc.group(1) + " " + pc.group(2))
        if rv.startswith("no_retag "):
            rv = rv[len("no_retag "):]
        cl = re.match(r"^(\{closure@[^}]*\})(?: \{ (.*) \})?$", rv)
        if cl:
            fields = []
            for fld in split_top(cl.group(2) or ""):
                fn_, fv = fld.split(":", 1)
                fields.append(self.operand(env, fv))
            return Adt(cl.group(1), fields)
        m = re.match(r"^(copy|move|const) (.+) as (\w+) \((\w+)\)$", rv)
        if rv.startswith(("copy ", "move ", "const ")) and not m:
            return self.operand(env, rv)
        if m:
            v = self.operand(env, m.group(1) + " " + m.group(2))
            kind, ty = m.group(4), m.group(3)
            if kind == "IntToInt" and ty in INT_W and z3.is_bv(v):
                src_ty = None
                pm = re.match(r"^_\d+$", m.group(2).strip())
                if pm:
                    src_ty = f.locals.get(m.group(2).strip())
                w0, w1 = v.size(), INT_W[ty]
                if w1 == w0:
                    return v
                if w1 < w0:
                    return z3.Extract(w1 - 1, 0, v)
                if src_ty in SIGNED:
                    return z3.SignExt(w1 - w0, v)
                if src_ty is None and not pm:
                    # constant operand: suffix tells the type
                    cm = re.search(r"_(\w+)$", m.group(2))
                    if cm and cm.group(1) in SIGNED:
                        return z3.SignExt(w1 - w0, v)
                return z3.ZeroExt(w1 - w0, v)
            raise Unsupported("cast %r" % rv)
        if rv.startswith("&"):
            p = rv[1:].strip()
            if p.startswith("mut "):
                p = p[4:]
            return Ref(self.read_place(env, p))
        m = re.match(r"^(\w+)\((.*)\)$", rv)
        if m and m.group(1) in BINOPS:
            a, b = [self.operand(env, x) for x in split_top(m.group(2))]
            return BINOPS[m.group(1)](a, b, self._signed_of(f, split_top(m.group(2))[0]))
        if m and m.group(1) == "Not":
            a = self.operand(env, m.group(2))
            return z3.Not(a) if z3.is_bool(a) else ~a
        if m and m.group(1) == "discriminant":
            v = self.read_place(env, m.group(2))
            if isinstance(v, Adt) and v.variant is not None:
                return Opaque("discr", {"variant": v.variant})
            raise Unsupported("discriminant of %r" % v)
        # aggregates
        rv_ng = strip_generics(rv)
        m = re.match(r"^(Option|Result|std::option::Option|std::result::Result)::(\w+)(?:\((.*)\))?$", rv_ng)
        if m:
            argstr = m.group(3)
            flds = [self.operand(env, x) for x in split_top(argstr)] if argstr else []
            return Adt(m.group(1).split("::")[-1], flds, m.group(2))
        if rv.startswith("(") and rv.endswith(")"):
            return Adt("tuple", [self.operand(env, x) for x in split_top(rv[1:-1])])
        m = re.match(r"^([\w:<>, &\[\]']+?)::(\w+)\((.*)\)$", rv)
        if m and re.match(r"^(Option|Result|std::option::Option|std::result::Result)", m.group(1)):
            return Adt(m.group(1).split("::")[0], [self.operand(env, x) for x in split_top(m.group(3))], m.group(2))
        m = re.match(r"^(Option|Result)::<.*>::(None)$", rv)
        if m:
            return Adt(m.group(1), [], m.group(2))
        m = re.match(r"^([A-Za-z_][\w:]*)\((.*)\)$", rv)
        if m:
            return Adt(m.group(1), [self.operand(env, x) for x in split_top(m.group(2))])
        m = re.match(r"^([A-Za-z_][\w:]*) \{ (.*) \}$", rv)
        if m:
            fields = []
            for fld in split_top(m.group(2)):
                fn_, fv = fld.split(":", 1)
                fields.append(self.operand(env, fv))
            return Adt(m.group(1), fields)
        m = re.match(r"^([A-Za-z_][\w:]*)$", rv)
        if m and "::" in rv:
            return Adt(rv, [])
        raise Unsupported("rvalue %r" % rv)

    def _signed_of(self, f, opnd):
        m = re.match(r"^(?:copy|move) (_\d+)$", opnd.strip())
        if m:
            return f.locals.get(m.group(1)) in SIGNED
        m = re.search(r"_(i8|i16|i32|i64|i128|isize)$", opnd.strip())
        return bool(m)

    # ---- execution
    def call(self, name, args, path):
        """returns list of (cond, kind, value)"""
        for pat, fn in self.models.items():
            if re.search(pat, name):
                try:
                    r = fn(self, name, args)
                except NotMine:
                    continue
                self.modelled.append(name)
                # a model may return 4-tuples (cond, kind, value, store_update)
                if r and len(r[0]) == 4:
                    self.out_stores = [dict(self.store, **u) for (_, _, _, u) in r]
                    r = [(c, k, v) for (c, k, v, _) in r]
                else:
                    self.out_stores = None
                return r
        f = self.resolve(name, args)
        return self.exec_fn(f, args)

    def resolve(self, name, args):
        """map a call path to the unique MIR body it denotes"""
        def last(t):
            t = t.strip()
            while t.startswith("&"):
                t = t[1:].strip()
                if t.startswith("mut "):
                    t = t[4:]
            return re.sub(r"^.*::", "", re.sub(r"<.*$", "", t))
        m = re.match(r"^<(.+) as (.+?)>::(\w+)(?:::<.*>)?$", name)
        cands = []
        if m:
            self_ty, trait, meth = m.group(1), m.group(2), m.group(3)
            tm = re.match(r"^(?:[\w:]*::)?From<(.+)>$", trait)
            for f in self.funcs:
                if not f.name.endswith(">::" + meth) or len(f.params) != len(args):
                    continue
                if tm and meth == "from":
                    if last(f.params[0][1]) == last(tm.group(1)) and last(f.ret) == last(self_ty):
                        cands.append(f)
                elif f.params and last(f.params[0][1]) == last(self_ty):
                    cands.append(f)
        else:
            parts = name.split("::")
            meth = re.sub(r"<.*$", "", parts[-1])
            ty = parts[-2] if len(parts) > 1 else ""
            for f in self.funcs:
                if f.name.endswith(">::" + meth) and len(f.params) == len(args):
                    # inherent method `Ty::meth`: MIR name is `mod::<impl at ..>::meth`; the impl's
                    # Self type is not in the name, so demand uniqueness of (method, arity)
                    cands.append(f)
        if len(cands) > 1 and not m:
            # inherent `Ty::meth`: the impl's Self type is not in the MIR name; use the signature
            ty_ = re.sub(r"<.*$", "", name.split("::")[-2]) if "::" in name else ""
            narrowed = [c for c in cands if last(c.ret) == ty_ or (c.params and last(c.params[0][1]) == ty_)]
            if narrowed:
                cands = narrowed
        if len(cands) > 1 and all(c.name == cands[0].name and c.params == cands[0].params and c.ret == cands[0].ret for c in cands):
            # `const fn`s are dumped twice (CTFE and runtime MIR of the same item)
            cands = cands[-1:]
        if len(cands) != 1:
            raise Unsupported("call to %r: %d candidate MIR bodies, no model" % (name, len(cands)))
        return cands[0]

    def exec_fn(self, f, args):
        if f.name not in self.encoded:
            self.encoded.append(f.name)
        env = {}
        for (pn, pt), a in zip(f.params, args):
            env[pn] = a
        outcomes = _Outcomes(self)
        self._exec_block(f, "bb0", env, z3.BoolVal(True), outcomes, set(), [0])
        self.out_stores = outcomes.stores
        return list(outcomes)

    def _exec_block(self, f, bb, env, cond, outcomes, onpath, counter):
        if bb in getattr(self, "stop_blocks", ()) and counter[0] > 0:
            # region execution: the path ends where the region ends (a region may start at one
            # of its own end blocks, e.g. a loop head)
            outcomes.append((cond, "stop", {"bb": bb, "env": env}))
            return
        if bb in onpath:
            raise Unsupported("loop in %s at %s" % (f.name, bb))
        counter[0] += 1
        if counter[0] > self.max_paths:
            raise Unsupported("too many paths in %s" % f.name)
        onpath = onpath | {bb}
        env = dict(env)
        stmts = f.blocks[bb]
        for s in stmts:
            s = s.rstrip(";")
            if s.startswith(("StorageLive", "StorageDead", "nop", "FakeRead", "PlaceMention", "AscribeUserType", "Retag", "Coverage", "ConstEvalCounter")):
                continue
            if s == "return":
                outcomes.append((cond, "ret", env.get("_0", Adt("()", []))))
                return
            if s == "unreachable":
                outcomes.append((cond, "panic", "unreachable reached"))
                return
            m = re.match(r"^goto -> (bb\d+)$", s)
            if m:
                return self._exec_block(f, m.group(1), env, cond, outcomes, onpath, counter)
            m = re.match(r"^switchInt\((.+)\) -> \[(.+)\]$", s)
            if m:
                v = self.operand(env, m.group(1))
                arms = [a.strip() for a in m.group(2).split(",")]
                taken = []
                for a in arms:
                    k, tgt = [x.strip() for x in a.split(":")]
                    if k == "otherwise":
                        c = z3.And([z3.Not(t) for t in taken]) if taken else z3.BoolVal(True)
                    else:
                        c = self._switch_eq(v, int(k))
                        taken.append(c)
                    c2 = z3.simplify(z3.And(cond, c))
                    if z3.is_false(c2):
                        continue
                    saved = dict(self.store)
                    self._exec_block(f, tgt, env, c2, outcomes, onpath, counter)
                    self.store = saved
                return
            m = re.match(r"^assert\((!?)(.+?), \"(.*?)\".*\) -> \[success: (bb\d+), unwind.*\]$", s)
            if m:
                v = self.operand(env, m.group(2))
                ok = z3.Not(v) if m.group(1) == "!" else v
                bad = z3.simplify(z3.And(cond, z3.Not(ok)))
                if not z3.is_false(bad):
                    outcomes.append((bad, "panic", "%s: %s" % (f.name, m.group(3))))
                c2 = z3.simplify(z3.And(cond, ok))
                if z3.is_false(c2):
                    return
                return self._exec_block(f, m.group(4), env, c2, outcomes, onpath, counter)
            m = re.match(r"^drop\(.+\) -> \[return: (bb\d+), unwind.*\]$", s)
            if m:
                return self._exec_block(f, m.group(1), env, cond, outcomes, onpath, counter)
            m = None
            m0 = re.match(r"^(.+?) = (.+\)) -> \[return: (bb\d+), unwind.*\]$", s)
            if m0:
                # split `callee(args)` at the parenthesis that matches the final one
                ca = m0.group(2)
                depth, k = 0, len(ca) - 1
                while k >= 0:
                    if ca[k] == ")":
                        depth += 1
                    elif ca[k] == "(":
                        depth -= 1
                        if depth == 0:
                            break
                    k -= 1
                if k > 0:
                    class _M:
                        pass
                    m = _M()
                    grp = {1: m0.group(1), 2: ca[:k], 3: ca[k + 1:-1], 4: m0.group(3)}
                    m.group = lambda i, grp=grp: grp[i]
            if m and not m.group(2).strip() in BINOPS and not re.match(r"^(copy|move|const|&)", m.group(2).strip()):
                dst, callee, argstr, nxt = m.group(1), m.group(2).strip(), m.group(3), m.group(4)
                args = [self.operand(env, a) for a in split_top(argstr)] if argstr.strip() else []
                call_outs = self.call(callee, args, cond)
                call_stores = list(self.out_stores) if (self.out_stores is not None and len(self.out_stores) == len(call_outs)) else None
                after_call = dict(self.store)
                for i_out, (c, kind, val) in enumerate(call_outs):
                    c2 = z3.simplify(z3.And(cond, c))
                    if z3.is_false(c2):
                        continue
                    # each outcome continues from the store the callee left on that path
                    self.store = dict(call_stores[i_out]) if call_stores is not None else dict(after_call)
                    if kind == "panic":
                        outcomes.append((c2, "panic", val))
                    else:
                        e2 = dict(env)
                        self.write_place(e2, dst, val)
                        self._exec_block_from(f, nxt, e2, c2, outcomes, onpath, counter)
                self.store = after_call
                return
            m = re.match(r"^(.+?) = (.+?)\((.*)\) -> unwind.*$", s)
            if m and "::" in m.group(2):
                # diverging call (panic helpers)
                outcomes.append((cond, "panic", "%s: call to diverging %s" % (f.name, m.group(2))))
                return
            m = re.match(r"^(\(?[_\w\.\*\(\): ]+?\)?) = (.+)$", s)
            if m:
                self.write_place(env, m.group(1), self.rvalue(env, f, m.group(1), m.group(2)))
                continue
            raise Unsupported("statement %r in %s" % (s, f.name))
        raise Unsupported("block %s of %s has no terminator" % (bb, f.name))

    def _exec_block_from(self, f, bb, env, cond, outcomes, onpath, counter):
        return self._exec_block(f, bb, env, cond, outcomes, onpath, counter)

    def _switch_eq(self, v, k):
        if z3.is_bool(v):
            return v if k != 0 else z3.Not(v)
        if z3.is_bv(v):
            return v == z3.BitVecVal(k, v.size())
        if isinstance(v, Opaque) and v.tag == "discr":
            idx = {"None": 0, "Some": 1, "Ok": 0, "Err": 1, "Less": -1, "Equal": 0, "Greater": 1, "Continue": 0, "Break": 1}.get(v.data["variant"])
            if idx is None:
                raise Unsupported("discriminant of %r" % v)
            return z3.BoolVal(idx == k or (idx == -1 and k in (255, 2 ** 64 - 1)))
        raise Unsupported("switchInt on %r" % (v,))


def _bv(op_u, op_s=None):
    def f(a, b, signed):
        return (op_s if (signed and op_s) else op_u)(a, b)
    return f


def _with_overflow(kind):
    def f(a, b, signed):
        w = a.size()
        if signed:
            ea, eb = z3.SignExt(w, a), z3.SignExt(w, b)
        else:
            ea, eb = z3.ZeroExt(w, a), z3.ZeroExt(w, b)
        full = {"add": ea + eb, "sub": ea - eb, "mul": ea * eb}[kind]
        res = z3.Extract(w - 1, 0, full)
        back = z3.SignExt(w, res) if signed else z3.ZeroExt(w, res)
        return Adt("tuple", [res, back != full])
    return f


SIDE = []  # definitional side constraints (division lemmas); every query must assert them
_fresh = [0]


def _div_rem(which):
    def f(a, b, signed):
        if signed:
            return (a / b) if which == "div" else z3.SRem(a, b)
        bs = z3.simplify(b)
        if z3.is_bv_value(bs) and bs.as_long() != 0:
            # a = q*d + r, 0 <= r < d, computed without wrap-around in 2w bits:
            # q and r are uniquely determined, so adding the lemma never removes a model
            w = a.size()
            _fresh[0] += 1
            q = z3.BitVec("divq!%d" % _fresh[0], w)
            r = z3.BitVec("divr!%d" % _fresh[0], w)
            d = bs.as_long()
            SIDE.append(z3.ZeroExt(w, a) == z3.ZeroExt(w, q) * z3.BitVecVal(d, 2 * w) + z3.ZeroExt(w, r))
            SIDE.append(z3.ULT(r, z3.BitVecVal(d, w)))
            return q if which == "div" else r
        return z3.UDiv(a, b) if which == "div" else z3.URem(a, b)
    return f


def _shift(kind):
    def f(a, b, signed):
        if b.size() < a.size():
            b = z3.ZeroExt(a.size() - b.size(), b)
        elif b.size() > a.size():
            b = z3.Extract(a.size() - 1, 0, b)
        b = b & z3.BitVecVal(a.size() - 1, a.size())
        if kind == "shl":
            return a << b
        return (a >> b) if signed else z3.LShR(a, b)
    return f


BINOPS = {
    "Eq": lambda a, b, s: a == b, "Ne": lambda a, b, s: a != b,
    "Lt": _bv(z3.ULT, lambda a, b: a < b), "Le": _bv(z3.ULE, lambda a, b: a <= b),
    "Gt": _bv(z3.UGT, lambda a, b: a > b), "Ge": _bv(z3.UGE, lambda a, b: a >= b),
    "Add": lambda a, b, s: a + b, "Sub": lambda a, b, s: a - b, "Mul": lambda a, b, s: a * b,
    "Div": _div_rem("div"), "Rem": _div_rem("rem"),
    "BitAnd": lambda a, b, s: (z3.And(a, b) if z3.is_bool(a) else a & b),
    "BitOr": lambda a, b, s: (z3.Or(a, b) if z3.is_bool(a) else a | b),
    "BitXor": lambda a, b, s: (z3.Xor(a, b) if z3.is_bool(a) else a ^ b),
    "Shl": _shift("shl"), "Shr": _shift("shr"),
    "AddWithOverflow": _with_overflow("add"), "SubWithOverflow": _with_overflow("sub"),
    "MulWithOverflow": _with_overflow("mul"),
    "AddUnchecked": lambda a, b, s: a + b, "SubUnchecked": lambda a, b, s: a - b,
}


# ------------------------------------------------------------------ core models
def T():
    return z3.BoolVal(True)


def m_saturating(kind):
    def f(mach, name, args):
        a, b = args
        w = a.size()
        ea, eb = z3.ZeroExt(w, a), z3.ZeroExt(w, b)
        mx = z3.BitVecVal((1 << w) - 1, 2 * w)
        if kind == "add":
            full = ea + eb
            r = z3.If(z3.UGT(full, mx), mx, full)
        elif kind == "mul":
            full = ea * eb
            r = z3.If(z3.UGT(full, mx), mx, full)
        else:
            r = z3.If(z3.ULT(ea, eb), z3.BitVecVal(0, 2 * w), ea - eb)
        return [(T(), "ret", z3.Extract(w - 1, 0, r))]
    return f


def m_try_from(mach, name, args):
    m = re.match(r"^<(\w+) as (?:std::convert::)?TryFrom<(\w+)>>::try_from$", name)
    dst, src = m.group(1), m.group(2)
    if dst not in INT_W or src not in INT_W:
        raise NotMine()
    (a,) = args
    wd, ws = INT_W[dst], INT_W[src]
    if dst in SIGNED or src in SIGNED:
        raise Unsupported("signed try_from")
    if wd >= ws:
        v = z3.ZeroExt(wd - ws, a) if wd > ws else a
        return [(T(), "ret", Adt("Result", [v], "Ok"))]
    fits = z3.ULE(a, z3.BitVecVal((1 << wd) - 1, ws))
    return [(fits, "ret", Adt("Result", [z3.Extract(wd - 1, 0, a)], "Ok")),
            (z3.Not(fits), "ret", Adt("Result", [Opaque("TryFromIntError")], "Err"))]


def m_from_int(mach, name, args):
    m = re.match(r"^<(\w+) as (?:std::convert::)?From<(\w+)>>::from$", name)
    dst, src = m.group(1), m.group(2)
    if dst not in INT_W or src not in INT_W:
        raise NotMine()
    (a,) = args
    if src in SIGNED:
        return [(T(), "ret", z3.SignExt(INT_W[dst] - INT_W[src], a))]
    return [(T(), "ret", z3.ZeroExt(INT_W[dst] - INT_W[src], a))]


def m_expect(mach, name, args):
    r = args[0]
    if not isinstance(r, Adt) or r.variant not in ("Ok", "Err", "Some", "None"):
        raise Unsupported("expect/unwrap on %r" % (r,))
    if r.variant in ("Ok", "Some"):
        return [(T(), "ret", r.fields[0])]
    return [(T(), "panic", "expect/unwrap on %s: %s" % (r.variant, args[1].data.get("s") if len(args) > 1 and isinstance(args[1], Opaque) else ""))]


def m_unwrap_or(mach, name, args):
    r, d = args
    if r.variant in ("Ok", "Some"):
        return [(T(), "ret", r.fields[0])]
    return [(T(), "ret", d)]


def m_max_min(kind):
    def f(mach, name, args):
        a, b = args
        if isinstance(a, Adt) and isinstance(b, Adt) and len(a.fields) == 1 and z3.is_bv(a.fields[0]):
            # derived Ord on a newtype over an unsigned integer compares the field
            x, y = a.fields[0], b.fields[0]
            r = z3.If(z3.UGT(x, y), x, y) if kind == "max" else z3.If(z3.ULT(y, x), y, x)
            return [(T(), "ret", Adt(a.name, [r], a.variant))]
        if isinstance(a, Adt) and isinstance(b, Adt):
            # any other type: run the type's own `Ord::cmp` body (e.g. a derived lexicographic order)
            ty = re.sub(r"^.*::<(.+)>$", r"\1", name).split("::")[-1]
            cmpf = mach.find("::cmp", param_types=["&" + ty, "&" + ty])
            res = []
            for (c, k, v) in mach.exec_fn(cmpf, [Ref(a), Ref(b)]):
                if k != "ret":
                    res.append((c, k, v))
                    continue
                # Ord::max: `if other < self { self } else { other }`; Ord::min: `if other < self { other } else { self }`
                other_lt_self = (v.variant == "Greater")
                if kind == "max":
                    res.append((c, "ret", a if other_lt_self else b))
                else:
                    res.append((c, "ret", b if other_lt_self else a))
            return res
        if not (z3.is_bv(a) and z3.is_bv(b)):
            raise NotMine()
        if kind == "max":
            return [(T(), "ret", z3.If(z3.UGT(a, b), a, b))]  # cmp::max returns b when equal: same value
        return [(T(), "ret", z3.If(z3.ULT(b, a), b, a))]
    return f


def m_int_partial_cmp(mach, name, args):
    a, b = [x.val if isinstance(x, Ref) else x for x in args]
    return [(z3.ULT(a, b), "ret", Adt("Option", [Adt("Ordering", [], "Less")], "Some")),
            (a == b, "ret", Adt("Option", [Adt("Ordering", [], "Equal")], "Some")),
            (z3.UGT(a, b), "ret", Adt("Option", [Adt("Ordering", [], "Greater")], "Some"))]


def m_into(mach, name, args):
    """the blanket `impl<T, U: From<T>> Into<U> for T`: `<T as Into<U>>::into(x)` is `<U as From<T>>::from(x)`"""
    m = re.match(r"^<(.+) as (?:std::convert::)?Into<(.+)>>::into$", name)
    if not m:
        raise NotMine()
    for pat, fn in mach.models.items():
        if fn is not m_into and re.search(pat, name):
            raise NotMine()                # a check-specific model of this very call takes precedence
    if m.group(1) == m.group(2):
        return [(T(), "ret", args[0])]     # reflexive `impl<T> From<T> for T`
    try:
        f = mach.resolve("<%s as From<%s>>::from" % (m.group(2), m.group(1)), args)
    except Unsupported:
        # no such body in this crate: leave it to a more specific model, if any
        for pat, fn in mach.models.items():
            if fn is not m_into and re.search(pat, "<%s as From<%s>>::from" % (m.group(2), m.group(1))):
                return fn(mach, "<%s as From<%s>>::from" % (m.group(2), m.group(1)), args)
        raise NotMine()
    return mach.exec_fn(f, args)


def m_int_cmp(mach, name, args):
    a, b = [x.val if isinstance(x, Ref) else x for x in args]
    if not (z3.is_bv(a) and z3.is_bv(b)):
        raise NotMine()
    return [(z3.ULT(a, b), "ret", Adt("Ordering", [], "Less")),
            (a == b, "ret", Adt("Ordering", [], "Equal")),
            (z3.UGT(a, b), "ret", Adt("Ordering", [], "Greater"))]


def m_partial_ord_default(which):
    """default methods le/lt/ge/gt of PartialOrd in terms of the type's own
    partial_cmp, whose MIR body is executed"""
    want = {"le": ("Less", "Equal"), "lt": ("Less",), "ge": ("Greater", "Equal"), "gt": ("Greater",)}[which]

    def f(mach, name, args):
        m = re.match(r"^<(.+) as (?:std::cmp::)?PartialOrd>::\w+$", name)
        ty = m.group(1)
        if ty in INT_W:
            outs = m_int_partial_cmp(mach, name, args)
        else:
            pc = mach.find("::partial_cmp", param_types=["&" + ty, "&" + ty])
            outs = mach.exec_fn(pc, args)
        res = []
        for (c, kind, v) in outs:
            if kind == "panic":
                res.append((c, kind, v))
            elif isinstance(v, Adt) and v.variant == "Some":
                res.append((c, "ret", z3.BoolVal(v.fields[0].variant in want)))
            else:
                res.append((c, "ret", z3.BoolVal(False)))
        return res
    return f


def m_div_ceil(mach, name, args):
    a, b = args
    q = z3.UDiv(a, b)
    r = z3.URem(a, b)
    return [(b == 0, "panic", "div_ceil by zero"),
            (b != 0, "ret", z3.If(r != 0, q + 1, q))]


def m_try_branch(mach, name, args):
    (r,) = args
    if not isinstance(r, Adt) or r.variant not in ("Ok", "Err"):
        raise Unsupported("Try::branch on %r" % (r,))
    if r.variant == "Ok":
        return [(T(), "ret", Adt("ControlFlow", [r.fields[0]], "Continue"))]
    return [(T(), "ret", Adt("ControlFlow", [Adt("Result", [r.fields[0]], "Err")], "Break"))]


def m_from_residual(mach, name, args):
    (r,) = args
    if not isinstance(r, Adt) or r.variant != "Err":
        raise Unsupported("from_residual on %r" % (r,))
    return [(T(), "ret", Adt("Result", [r.fields[0]], "Err"))]


def m_deref(mach, name, args):
    (r,) = args
    v = r.val if isinstance(r, Ref) else r
    return [(T(), "ret", v if isinstance(v, Ref) else Ref(v))]


def m_checked(kind):
    def f(mach, name, args):
        a, b = args
        w = a.size()
        ea, eb = z3.ZeroExt(w, a), z3.ZeroExt(w, b)
        mx = z3.BitVecVal((1 << w) - 1, 2 * w)
        if kind == "sub":
            ok = z3.UGE(a, b)
            full = ea - eb
        else:
            full = ea + eb if kind == "add" else ea * eb
            ok = z3.ULE(full, mx)
        return [(ok, "ret", Adt("Option", [z3.Extract(w - 1, 0, full)], "Some")),
                (z3.Not(ok), "ret", Adt("Option", [], "None"))]
    return f


def call_closure(mach, clos, args):
    """execute the MIR body of a closure value (Adt named `{closure@...}`)"""
    if not (isinstance(clos, Adt) and clos.name.startswith("{closure@")):
        raise Unsupported("not a closure: %r" % (clos,))
    cands = [g for g in mach.funcs if g.params and g.params[0][1].lstrip("&").replace("mut ", "") == clos.name]
    if len(cands) != 1:
        raise Unsupported("closure %s: %d bodies" % (clos.name, len(cands)))
    first = clos if not cands[0].params[0][1].startswith("&") else Ref(clos)
    return mach.exec_fn(cands[0], [first] + list(args))


def m_is_some_and(mach, name, args):
    opt, clos = args
    if not isinstance(opt, Adt) or opt.variant not in ("Some", "None"):
        raise Unsupported("is_some_and on %r" % (opt,))
    if opt.variant == "None":
        return [(T(), "ret", z3.BoolVal(False))]
    return call_closure(mach, clos, [opt.fields[0]])


def m_option_map(mach, name, args):
    opt, clos = args
    if not isinstance(opt, Adt) or opt.variant not in ("Some", "None"):
        raise Unsupported("Option::map on %r" % (opt,))
    if opt.variant == "None":
        return [(T(), "ret", Adt("Option", [], "None"))]
    return [(c, k, (Adt("Option", [v], "Some") if k == "ret" else v)) for (c, k, v) in call_closure(mach, clos, [opt.fields[0]])]


def m_opt_unwrap_or(mach, name, args):
    opt, d = args
    if not isinstance(opt, Adt) or opt.variant not in ("Some", "None", "Ok", "Err"):
        raise Unsupported("unwrap_or on %r" % (opt,))
    return [(T(), "ret", opt.fields[0] if opt.variant in ("Some", "Ok") else d)]


def m_wrapping(kind):
    def f(mach, name, args):
        a, b = args
        return [(T(), "ret", {"add": a + b, "sub": a - b, "mul": a * b}[kind])]
    return f


def m_overflowing(kind):
    def f(mach, name, args):
        a, b = args
        return [(T(), "ret", _with_overflow(kind)(a, b, False))]
    return f


def m_ord_minmax(kind):
    def f(mach, name, args):
        a, b = args
        if not (z3.is_bv(a) and z3.is_bv(b)):
            raise NotMine()
        return [(T(), "ret", (z3.If(z3.UGT(a, b), a, b) if kind == "max" else z3.If(z3.ULT(b, a), b, a)))]
    return f


def m_abs_diff(mach, name, args):
    a, b = args
    return [(T(), "ret", z3.If(z3.UGE(a, b), a - b, b - a))]


def m_is_some(which):
    def f(mach, name, args):
        o = args[0]
        while isinstance(o, Ref):
            o = o.val
        if not isinstance(o, Adt) or o.variant not in ("Some", "None", "Ok", "Err"):
            raise Unsupported("is_some/is_none on %r" % (o,))
        yes = o.variant in ("Some", "Ok")
        return [(T(), "ret", z3.BoolVal(yes if which else not yes))]
    return f


CORE_MODELS = {
    r"^core::num::<impl u\w+>::wrapping_add$": m_wrapping("add"),
    r"^core::num::<impl u\w+>::wrapping_sub$": m_wrapping("sub"),
    r"^core::num::<impl u\w+>::wrapping_mul$": m_wrapping("mul"),
    r"^core::num::<impl u\w+>::overflowing_add$": m_overflowing("add"),
    r"^core::num::<impl u\w+>::overflowing_sub$": m_overflowing("sub"),
    r"^core::num::<impl u\w+>::overflowing_mul$": m_overflowing("mul"),
    r"^core::num::<impl u\w+>::abs_diff$": m_abs_diff,
    r"^<u\w+ as Ord>::max$": m_ord_minmax("max"),
    r"^<u\w+ as Ord>::min$": m_ord_minmax("min"),
    r"^Option::<.*>::is_some$": m_is_some(True),
    r"^Option::<.*>::is_none$": m_is_some(False),
    r"^Result::<.*>::is_ok$": m_is_some(True),
    r"^Result::<.*>::is_err$": m_is_some(False),
    r"^core::num::<impl \w+>::checked_add$": m_checked("add"),
    r"^core::num::<impl \w+>::checked_sub$": m_checked("sub"),
    r"^core::num::<impl \w+>::checked_mul$": m_checked("mul"),
    r"^Option::<.*>::is_some_and::<.*>$": m_is_some_and,
    r"^Option::<.*>::map::<.*>$": m_option_map,
    r"^Option::<.*>::unwrap_or$": m_opt_unwrap_or,
    r"^<Result<.*> as (std::ops::)?Try>::branch$": m_try_branch,
    r"^<Result<.*> as (std::ops::)?FromResidual<.*>>::from_residual$": m_from_residual,
    r"^<Arc<.*> as (std::ops::)?Deref>::deref$": m_deref,
    r"^core::num::<impl \w+>::saturating_add$": m_saturating("add"),
    r"^core::num::<impl \w+>::saturating_sub$": m_saturating("sub"),
    r"^core::num::<impl \w+>::saturating_mul$": m_saturating("mul"),
    r"^core::num::<impl \w+>::div_ceil$": m_div_ceil,
    r"^<\w+ as (std::convert::)?TryFrom<\w+>>::try_from$": m_try_from,
    r"^<\w+ as (std::convert::)?From<\w+>>::from$": m_from_int,
    r"^Result::<.*>::expect$": m_expect,
    r"^Result::<.*>::unwrap$": m_expect,
    r"^Option::<.*>::expect$": m_expect,
    r"^Option::<.*>::unwrap$": m_expect,
    r"^Result::<.*>::unwrap_or$": m_unwrap_or,
    r"^<(u8|u16|u32|u64|usize) as (std::cmp::)?Ord>::cmp$": m_int_cmp,
    r"^<.+ as (std::convert::)?Into<.+>>::into$": m_into,
    r"^(std::)?cmp::max::<\w+>$": m_max_min("max"),
    r"^(std::)?cmp::min::<\w+>$": m_max_min("min"),
    r"^<\w+ as (std::cmp::)?PartialOrd>::partial_cmp$": m_int_partial_cmp,
    r"^<.+ as (std::cmp::)?PartialOrd>::le$": m_partial_ord_default("le"),
    r"^<.+ as (std::cmp::)?PartialOrd>::lt$": m_partial_ord_default("lt"),
    r"^<.+ as (std::cmp::)?PartialOrd>::ge$": m_partial_ord_default("ge"),
    r"^<.+ as (std::cmp::)?PartialOrd>::gt$": m_partial_ord_default("gt"),
}
