// Kani concrete playback for harness k10_acc_sum_b_y (module c10k.rs)
// replay: vcheck.py --replay /verif/replays/C10/k10_acc_sum_b_y.playback.rs
#[test]
fn kani_concrete_playback_k10_acc_sum_b_y_9854574124021418297() {
    let concrete_vals: Vec<Vec<u8>> = vec![
        // 3
        vec![3],
        // 252
        vec![252],
        // 252
        vec![252],
        // 252
        vec![252],
        // 3ul
        vec![3, 0, 0, 0, 0, 0, 0, 0],
        // 7ul
        vec![7, 0, 0, 0, 0, 0, 0, 0],
        // 0ul
        vec![0, 0, 0, 0, 0, 0, 0, 0],
    ];
    kani::concrete_playback_run(concrete_vals, k10_acc_sum_b_y);
}