"""C05, interpreter arms (Engine M): one step of `BitMachine::exec_with_tracker` per combinator.

The MIR of `exec_with_tracker` is a loop; its *dispatch region* - from the block that switches on
the discriminant of `ip.inner()` to the block where all arms join (the tracker notification) - is
loop-free. That region is executed path by path from the compiler's MIR for every combinator, with
the node's and its children's types as symbolic widths (related only by the typing rule of the
combinator). The machine's micro-operations (`copy`, `skip`, `fwd`, `back`, `write_bit`,
`new_write_frame`, ... - their own correctness is the subject of the Kani harnesses `k05_*`) and the
pushes on the call stack are recorded as a trace; `Final::{bit_width, pad_left, pad_right}` are
executed from their own MIR. The obligation: the trace equals the instruction sequence that the
Bit Machine semantics of the Simplicity technical report prescribe for the combinator, argument by
argument, for all type widths (an SMT query per path; z3 and cvc5 must agree).

Normalisation (so that behaviour-preserving rewrites are not flagged): adjacent cursor moves of the
same kind are merged (`fwd a; fwd b` = `fwd a+b`, same for skip/back, and for adjacent `Back`
entries pushed on the call stack). A trace whose *shape* (sequence of operation kinds) still
differs from the reference cannot be decided by this encoding and is reported UNEXPLORED, never as
a violation.
"""
import os
import re

import z3

from . import mir2smt as M
from .mir2smt import Adt, Opaque, Ref, Unsupported

BV = lambda n: z3.BitVec(n, 64)  # noqa: E731
C = lambda v: z3.BitVecVal(v, 64)  # noqa: E731
UNIT = Adt("()", [])
CS_VARIANTS = ["Goto", "MoveWriteFrameToRead", "DropReadFrame", "CopyFwd", "Back"]   # declaration order, checked in Arms


def fin(name, w, kind=None, l=None, r=None):
    """a `Final`: fields in declaration order (bound, bit_width, has_padding, tmr)"""
    return Adt("Final", [Opaque("bound", {"kind": kind, "l": l, "r": r}), w, Opaque("has_padding"), Opaque("tmr")], None)


def node(name, src, tgt):
    return Opaque("node", {"name": name, "arrow": Adt("FinalArrow", [src, tgt])})


def variants_of_inner(repo):
    src_inner = open(os.path.join(repo, "src", "node", "inner.rs")).read()
    body = src_inner[src_inner.index("pub enum Inner"):]
    body = body[body.index("{") + 1:body.index("\n}")]
    variants = re.findall(r"^\s{4}([A-Z]\w*)", body, re.M)
    if len(variants) != 16 or variants[0] != "Iden":
        raise Unsupported("unexpected variants of node::Inner: %r" % variants)
    return variants


def locate(f):
    """(dispatch block, local holding &Inner, local holding ip, join block = target of `Unit`)"""
    for bb, stmts in f.blocks.items():
        if len(stmts) < 2:
            continue
        m = re.match(r"^(_\d+) = discriminant\(\(\*(_\d+)\)\)$", stmts[-2].rstrip(";"))
        s = re.match(r"^switchInt\(move (_\d+)\) -> \[(.+)\]$", stmts[-1].rstrip(";"))
        if m and s and s.group(1) == m.group(1) and s.group(2).count(":") >= 17:
            arms = {}
            for a in s.group(2).split(","):
                k, t = [x.strip() for x in a.split(":")]
                arms[k] = t
            inner_local = m.group(2)
            # the call that produced inner_local: `_33 = Node::<Redeem>::inner(move _34)`; `_34 = copy _14`
            ip_local = None
            for bb2, st2 in f.blocks.items():
                for i, x in enumerate(st2):
                    mm = re.match(r"^%s = Node::<Redeem>::inner\(move (_\d+)\) -> \[return: %s," % (inner_local, bb), x)
                    if mm:
                        for y in st2[:i]:
                            m3 = re.match(r"^%s = copy (_\d+);?$" % mm.group(1), y)
                            if m3:
                                ip_local = m3.group(1)
            if ip_local is None:
                raise Unsupported("exec_with_tracker: cannot find the local holding `ip`")
            return bb, inner_local, ip_local, arms
    raise Unsupported("exec_with_tracker: dispatch on ip.inner() not found")


class Arms:
    def __init__(self, funcs, repo):
        self.funcs = funcs
        self.repo = repo
        self.variants = variants_of_inner(repo)
        self.vidx = {v: i for i, v in enumerate(self.variants)}
        fs = [g for g in funcs if g.name.endswith("::exec_with_tracker") and "Result<value::Value" in g.ret.replace("std::result::", "")]
        if len(fs) != 1:
            raise Unsupported("exec_with_tracker: %d MIR bodies" % len(fs))
        self.f = fs[0]
        self.bb, self.inner_local, self.ip_local, self.arms = locate(self.f)
        self.join = self.arms[str(self.vidx["Unit"])]
        self.dbg = dict((n, l) for (n, l) in re.findall(r"debug (\w+) => (_\d+);", self.f.text))
        self.choice = z3.Bool("choice_bit")
        self.nread = BV("n_read_frames")
        self.mach = self._machine()

    # ------------------------------------------------------------ machine with trace models
    def _machine(self):
        models = dict(M.CORE_MODELS)
        T = M.T

        def ev(mach, *e):
            return {"trace": tuple(mach.store.get("trace", ())) + (tuple(e),)}

        def strip(v):
            while isinstance(v, Ref):
                v = v.val
            return v

        def op(kind, nargs):
            def f(mach, name, args):
                a = [x for x in args[1:1 + nargs]]
                return [(T(), "ret", UNIT, ev(mach, kind, *a))]
            return f
        for (nm, k) in (("copy", 1), ("skip", 1), ("fwd", 1), ("back", 1), ("write_bit", 1), ("new_write_frame", 1),
                        ("move_write_frame_to_read", 0), ("drop_read_frame", 0), ("write_bytes", 1), ("write_value", 1),
                        ("write_u8", 1)):
            models[r"^BitMachine::%s$" % nm] = op(nm, k)

        def push(mach, name, args):
            return [(T(), "ret", UNIT, ev(mach, "push", args[1]))]
        models[r"^Vec::<CallStack<'_>>::push$"] = push

        def arrow(mach, name, args):
            n = strip(args[0])
            if not (isinstance(n, Opaque) and n.tag == "node"):
                raise Unsupported("arrow() of %r" % (n,))
            return [(T(), "ret", Ref(n.data["arrow"]))]
        models[r"^redeem::<impl Node<Redeem>>::arrow$"] = arrow

        def deref(mach, name, args):
            return [(T(), "ret", Ref(strip(args[0])))]
        models[r"^<Arc<Final> as Deref>::deref$"] = deref
        models[r"^<Arc<Node<Redeem>> as Deref>::deref$"] = deref
        models[r"^<&Arc<Final> as Deref>::deref$"] = deref

        def as_kind(kind):
            def f(mach, name, args):
                t = strip(args[0])
                b = t.fields[0].data
                if b["kind"] == kind:
                    return [(T(), "ret", Adt("Option", [Adt("tuple", [Ref(b["l"]), Ref(b["r"])])], "Some"))]
                return [(T(), "ret", Adt("Option", [], "None"))]
            return f
        models[r"^Final::as_sum$"] = as_kind("sum")
        models[r"^Final::as_product$"] = as_kind("product")

        def unwrap(mach, name, args):
            o = args[0]
            if isinstance(o, Adt) and o.variant == "Some":
                return [(T(), "ret", o.fields[0])]
            return [(T(), "panic", "unwrap on None: the node's type does not have the shape its combinator needs")]
        models[r"^Option::<\(&Arc<Final>, &Arc<Final>\)>::unwrap$"] = unwrap

        models[r"^Vec::<Frame>::len$"] = lambda mach, name, args: [(T(), "ret", self.nread)]
        models[r"^<Vec<Frame> as Index<usize>>::index$"] = lambda mach, name, args: [(T(), "ret", Ref(Opaque("frame", {"idx": args[1]})))]
        models[r"^<Vec<u8> as Deref>::deref$"] = lambda mach, name, args: [(T(), "ret", Ref(Opaque("data")))]

        def peek(mach, name, args):
            fr = strip(args[0])
            return [(T(), "ret", self.choice, ev(mach, "peek", fr.data["idx"]))]
        models[r"^Frame::peek_bit$"] = peek
        models[r"^Node::<Redeem>::inner$"] = lambda mach, name, args: [(T(), "ret", Ref(strip(args[0]).data["inner"]))]
        models[r"^Node::<Redeem>::cmr$"] = lambda mach, name, args: [(T(), "ret", Opaque("cmr_of", {"node": strip(args[0]).data["name"]}))]
        models[r"^<Cmr as AsRef<\[u8\]>>::as_ref$"] = lambda mach, name, args: [(T(), "ret", Opaque("bytes_of", {"what": strip(args[0])}))]
        models[r"^(value::)?Word::as_value$"] = lambda mach, name, args: [(T(), "ret", Opaque("value_of_word", {"w": strip(args[0])}))]
        # ---- the loop that pops the call stack, and the exit path
        def pop(mach, name, args):
            return [(T(), "ret", mach.store["popped"])]
        models[r"^Vec::<CallStack<'_>>::pop$"] = pop
        models[r"^<Vec<Frame> as DerefMut>::deref_mut$"] = lambda mach, name, args: [(T(), "ret", Ref(Opaque("frames", {"of": repr(strip(args[0]))})))]
        models[r"^core::slice::<impl \[Frame\]>::last_mut$"] = lambda mach, name, args: [
            (T(), "ret", Adt("Option", [Ref(Opaque("frame", {"idx": "last of " + strip(args[0]).data["of"]}))], "Some"))]
        models[r"^Option::<&mut Frame>::unwrap$"] = M.m_expect
        models[r"^Frame::reset_cursor$"] = lambda mach, name, args: [(T(), "ret", UNIT, ev(mach, "reset_cursor", strip(args[0]).data["idx"]))]
        models[r"^Frame::as_bit_iter_from_cursor$"] = lambda mach, name, args: [
            (T(), "ret", Opaque("frame_iter", {"frame": strip(args[0]).data["idx"], "after": len(mach.store.get("trace", ()))}))]
        models[r"^(value::)?Value::from_padded_bits::<.*>$"] = lambda mach, name, args: [
            (T(), "ret", Adt("Result", [Opaque("value", {"ty": strip(args[1]), "from": strip(args[0])})], "Ok"))]
        models[r"^Result::<(value::)?Value, EarlyEndOfStreamError>::expect$"] = M.m_expect
        models[r"^(value::)?Value::zero$"] = lambda mach, name, args: [(T(), "ret", Opaque("value", {"ty": strip(args[0]), "from": "zero"}))]
        models[r"^(value::)?Value::unit$"] = lambda mach, name, args: [(T(), "ret", Opaque("value", {"ty": "the unit type", "from": "unit"}))]
        # code that looks at the entry *below* the one being executed (`call_stack.last()`): any entry or none
        self.next_kind = BV("next_entry_kind")

        def cs_last(mach, name, args):
            outs = []
            for i, v in enumerate(CS_VARIANTS):
                flds = [BV("next_entry_amount")] if v in ("CopyFwd", "Back") else ([Ref(Opaque("node", {"name": "some node", "arrow": None}))] if v == "Goto" else [])
                outs.append((self.next_kind == C(i), "ret", Adt("Option", [Ref(Adt("CallStack", flds, v))], "Some")))
            outs.append((z3.UGE(self.next_kind, C(len(CS_VARIANTS))), "ret", Adt("Option", [], "None")))
            return outs
        models[r"^core::slice::<impl \[CallStack<'_>\]>::last$"] = cs_last
        models[r"^<Vec<CallStack<'_>> as Deref>::deref$"] = lambda mach, name, args: [(T(), "ret", Ref(Opaque("callstack_slice")))]
        models[r"^Vec::<CallStack<'_>>::len$"] = lambda mach, name, args: [(T(), "ret", BV("call_stack_len"))]
        mach = M.Machine(self.funcs, models)
        orig_rvalue = mach.rvalue
        vidx = self.vidx

        def rvalue(env, f, dst, rv):
            m = re.match(r"^discriminant\((.+)\)$", rv.strip())
            if m:
                v = mach.read_place(env, m.group(1))
                if isinstance(v, Adt) and v.name == "Inner":
                    return z3.BitVecVal(vidx[v.variant], 64)
                if isinstance(v, Adt) and v.name == "CallStack":
                    return z3.BitVecVal(CS_VARIANTS.index(v.variant), 64)
                if isinstance(v, Adt) and v.name == "Option":
                    return z3.BitVecVal(1 if v.variant == "Some" else 0, 64)
            m = re.match(r"^CallStack::<'_>::(\w+)(?:\((.*)\))?$", rv.strip())
            if m:
                flds = [mach.operand(env, x) for x in M.split_top(m.group(2))] if m.group(2) else []
                return Adt("CallStack", flds, m.group(1))
            return orig_rvalue(env, f, dst, rv)
        mach.rvalue = rvalue
        return mach

    # ------------------------------------------------------------ one arm
    def run_arm(self, variant, ip, inner_fields):
        inner = Adt("Inner", inner_fields, variant)
        ip.data["inner"] = inner
        mac = Adt("BitMachine", [Opaque("mac.data"), Opaque("mac.next_frame_start"), Opaque("mac.read"), Opaque("mac.write"),
                                 Opaque("mac.source_ty"), Opaque("mac.f5"), Opaque("mac.f6")])
        env = {"_1": Ref(mac), self.ip_local: Ref(ip), self.inner_local: Ref(inner)}
        # `&mut _15` (the call stack) and anything else read before being written in the region
        for loc in self.f.locals:
            env.setdefault(loc, Opaque("uninit:" + loc))
        self.mach.store = {"trace": ()}
        self.mach.stop_blocks = {self.join}
        outcomes = M._Outcomes(self.mach)
        try:
            self.mach._exec_block(self.f, self.bb, env, z3.BoolVal(True), outcomes, set(), [0])
        finally:
            self.mach.stop_blocks = set()
        res = []
        for (c, k, v), st in zip(list(outcomes), outcomes.stores):
            res.append((c, k, v, st.get("trace", ())))
        return res


def run_pop(arms, popped, program, out_width):
    """the region from `call_stack.pop()` to the next loop head / the function's return"""
    f = arms.f
    start = None
    for bb, st in f.blocks.items():
        if any(re.search(r"= Vec::<CallStack<'_>>::pop\(", x) for x in st):
            start = bb
    if start is None:
        raise Unsupported("exec_with_tracker: call_stack.pop() not found")
    # the main loop head: where the Goto arm continues (`ip = next; goto -> bbN`)
    heads = set()
    for bb, st in f.blocks.items():
        if len(st) >= 2 and re.match(r"^%s = copy " % arms.ip_local, st[-2]) and re.match(r"^goto -> (bb\d+)", st[-1]):
            heads.add(re.match(r"^goto -> (bb\d+)", st[-1]).group(1))
    if len(heads) != 1:
        raise Unsupported("exec_with_tracker: main loop head not found (%r)" % heads)
    mac = Adt("BitMachine", [Opaque("mac.data"), Opaque("mac.next_frame_start"), Opaque("mac.read"), Opaque("mac.write"),
                             Opaque("mac.source_ty"), Opaque("mac.f5"), Opaque("mac.f6")])
    env = {}
    for loc in f.locals:
        env[loc] = Opaque("uninit:" + loc)
    env["_1"] = Ref(mac)
    env[arms.dbg["program"]] = Ref(program)
    env[arms.dbg["output_width"]] = out_width
    arms.mach.store = {"trace": (), "popped": popped}
    arms.mach.stop_blocks = heads | {start}
    outcomes = M._Outcomes(arms.mach)
    try:
        arms.mach._exec_block(f, start, env, z3.BoolVal(True), outcomes, set(), [0])
    finally:
        arms.mach.stop_blocks = set()
    return [(c, k, v, st.get("trace", ())) for (c, k, v), st in zip(list(outcomes), outcomes.stores)], start, list(heads)[0]


def run_pop_checks(arms, sol, log, section):
    """P.*: each call-stack entry is executed as what it stands for; E.*: the result is decoded
    from the rewound output frame with the program's target type"""
    explored = []
    n = BV("w_n")
    tgt_w = BV("w_target")
    TGT = fin("T", tgt_w)
    program = node("program", fin("S", BV("w_source")), TGT)
    nxt = node("next", fin("X", BV("w_x")), fin("Y", BV("w_y")))
    src = open(os.path.join(arms.repo, "src", "bit_machine", "mod.rs")).read()
    m = re.search(r"enum CallStack<'a> \{(.*?)\n        \}", src, re.S)
    if not m or re.findall(r"^\s+([A-Z]\w*)", m.group(1), re.M) != CS_VARIANTS:
        raise Unsupported("unexpected variants of CallStack")
    refs = {
        "MoveWriteFrameToRead": ([], [("move_write_frame_to_read",)]),
        "DropReadFrame": ([], [("drop_read_frame",)]),
        "CopyFwd": ([n], [("copy", n), ("fwd", n)]),
        "Back": ([n], [("back", n)]),
    }
    for v, (flds, ref) in refs.items():
        with section("P.%s one call-stack entry" % v, log):
            outs, start, head = run_pop(arms, Adt("Option", [Adt("CallStack", flds, v)], "Some"), program, tgt_w)
            bad = []
            for (c, k, val, tr) in outs:
                if k != "stop" or val["bb"] != start:
                    bad.append(c)            # must come back to the pop
                    continue
                got, ref_n = summarise_open(tr), summarise_open(ref)
                if shape(got) != shape(ref_n):
                    raise Unsupported("the %s entry has the effect %r where the reference has %r" % (v, shape(got), shape(ref_n)))
                bad.append(z3.And(c, args_differ(got, ref_n)))
            bad = [x for x in bad if not z3.is_false(z3.simplify(x))]
            qn = "P.%s is executed as the micro-operations it stands for, then the next entry is popped" % v
            if bad:
                sol.add(qn, [z3.Or(bad)], vars_for_model=[n, arms.next_kind])
            else:
                sol.trivial(qn, "%d path(s), effect syntactically equal to the reference" % len(outs))
            explored.append("P." + v)
    with section("P.Goto one call-stack entry", log):
        outs, start, head = run_pop(arms, Adt("Option", [Adt("CallStack", [Ref(nxt)], "Goto")], "Some"), program, tgt_w)
        ok = len(outs) == 1 and outs[0][1] == "stop" and outs[0][2]["bb"] == head and not outs[0][3]
        ipv = outs[0][2]["env"].get(arms.ip_local) if ok else None
        while isinstance(ipv, Ref):
            ipv = ipv.val
        if not (ok and ipv is nxt):
            raise Unsupported("the Goto entry does not simply continue the main loop at the popped node (outcomes %r)" % ([(k, v if k != "stop" else v["bb"]) for (c, k, v, t) in outs],))
        sol.trivial("P.Goto continues the main loop with ip = the popped node, no micro-operation", "1 path, syntactic")
        explored.append("P.Goto")
    with section("E. exit path (empty call stack)", log):
        outs, start, head = run_pop(arms, Adt("Option", [], "None"), program, tgt_w)
        bad, pos, zero = [], [], []
        for (c, k, val, tr) in outs:
            if k == "panic":
                bad.append(c)
                continue
            if k != "ret" or not (isinstance(val, Adt) and val.variant == "Ok" and isinstance(val.fields[0], Opaque) and val.fields[0].tag == "value"):
                raise Unsupported("exit path: outcome %r %r" % (k, val))
            vd = val.fields[0].data
            right_ty = vd["ty"] is TGT
            if vd["from"] in ("zero", "unit"):
                zero.append(c)
                if not right_ty:
                    bad.append(c)                      # a value of another type than the program's target
            else:
                pos.append(c)
                fr = vd["from"]
                rewound = [e for e in tr if e[0] == "reset_cursor"]
                good = (right_ty and isinstance(fr, Opaque) and fr.tag == "frame_iter" and "mac.write" in str(fr.data["frame"])
                        and len(rewound) == 1 and rewound[0][1] == fr.data["frame"] and fr.data["after"] >= 1
                        and all(e[0] == "reset_cursor" for e in tr))
                if not good:
                    bad.append(c)
        # which path is taken: zero-width targets exactly
        bad.append(z3.And(z3.Or(zero) if zero else z3.BoolVal(False), tgt_w != 0))
        bad.append(z3.And(z3.Or(pos) if pos else z3.BoolVal(False), tgt_w == 0))
        sol.add("E. the result is a value of the program's target type, decoded from the rewound output frame (or the unique value of a zero-width type)",
                [z3.Or(bad)], vars_for_model=[tgt_w])
        explored.append("E.exit")
    return explored


def summarise_open(trace):
    """`summarise` for call-stack entries, which act on frames allocated by earlier arms"""
    pre = []
    if any(e[0] == "move_write_frame_to_read" for e in trace):
        pre = [("new_write_frame", C(0))]
    if any(e[0] == "drop_read_frame" for e in trace):
        pre = [("new_write_frame", C(0)), ("move_write_frame_to_read",)]
    return summarise(pre + list(trace))


def _cs(item):
    """(variant, payload) of a CallStack entry"""
    if isinstance(item, Adt) and item.name == "CallStack":
        p = item.fields[0] if item.fields else None
        while isinstance(p, Ref):
            p = p.val
        return item.variant, p
    raise Unsupported("call-stack entry %r" % (item,))


def summarise(trace):
    """The effect of a sequence of micro-operations, independent of how cursor moves are split or
    interleaved: every write / copy / peek / frame operation with the (relative) read and write
    cursor positions at which it happens, the final cursor positions per frame (what the children,
    which run after the arm, will see), and the entries pushed on the call stack with adjacent
    `Back`s merged."""
    rs, ws = [C(0)], [C(0)]
    events, stack = [], []
    for e in trace:
        k = e[0]
        if k == "skip":
            ws[-1] = ws[-1] + e[1]
        elif k == "fwd":
            rs[-1] = rs[-1] + e[1]
        elif k == "back":
            rs[-1] = rs[-1] - e[1]
        elif k == "write_bit":
            events.append(("write_bit", [e[1], ws[-1]]))
            ws[-1] = ws[-1] + 1
        elif k == "copy":
            events.append(("copy", [e[1], rs[-1], ws[-1]]))
            ws[-1] = ws[-1] + e[1]
        elif k == "write_bytes":
            events.append(("write_bytes:" + repr(e[1]), [ws[-1]]))
            ws[-1] = ws[-1] + 256          # only ever the 32-byte CMR of disconnect's right child
        elif k == "write_value":
            events.append(("write_value:" + repr(e[1]), [ws[-1]]))
        elif k == "write_u8":
            events.append(("write_u8", [e[1], ws[-1]]))
            ws[-1] = ws[-1] + 8
        elif k == "peek":
            events.append(("peek", [rs[-1]]))
        elif k == "new_write_frame":
            events.append(("new_write_frame", [e[1]]))
            ws.append(C(0))
        elif k == "move_write_frame_to_read":
            events.append(("move_write_frame_to_read", []))
            if len(ws) < 2:
                raise Unsupported("an arm moves a write frame it did not allocate")
            ws.pop()
            rs.append(C(0))
        elif k == "drop_read_frame":
            events.append(("drop_read_frame", []))
            if len(rs) < 2:
                raise Unsupported("an arm drops a read frame it did not create")
            rs.pop()
        elif k == "push":
            v, pl = _cs(e[1])
            if v == "Back" and stack and stack[-1][0] == "push:Back":
                stack[-1] = ("push:Back", [stack[-1][1][0] + pl])
            elif v in ("Back", "CopyFwd"):
                stack.append(("push:" + v, [pl]))
            elif v == "Goto":
                stack.append(("push:Goto:" + (pl.data["name"] if isinstance(pl, Opaque) else repr(pl)), []))
            else:
                stack.append(("push:" + v, []))
        else:
            raise Unsupported("micro-operation %r" % (k,))
    # a Back by a syntactic zero is no entry
    stack = [x for x in stack if not (x[0] == "push:Back" and z3.is_bv_value(z3.simplify(x[1][0])) and z3.simplify(x[1][0]).as_long() == 0)]
    return events + stack + [("final read cursors", rs), ("final write cursors", ws)]


def shape(summary):
    return [(k, len(a)) for (k, a) in summary]


def args_differ(got, ref):
    d = []
    for (k, a), (rk, ra) in zip(got, ref):
        for x, y in zip(a, ra):
            if z3.is_bool(x) or z3.is_bool(y):
                d.append(z3.Xor(x, y))
            else:
                d.append(x != y)
    return z3.Or(d) if d else z3.BoolVal(False)


def cases():
    """(variant, ip node, inner fields, typing hypotheses, {path selector: reference trace}, variables)"""
    a, b, c, d = BV("w_a"), BV("w_b"), BV("w_c"), BV("w_d")
    A, B, Cc, D = fin("A", a), fin("B", b), fin("C", c), fin("D", d)
    mx = lambda x, y: z3.If(z3.UGE(x, y), x, y)  # noqa: E731
    vs = [a, b, c, d]
    small = [z3.ULE(x, C(1 << 40)) for x in vs]   # type widths of programs the machine accepts (limits: 2^31 cells)

    def goto(n):
        return ("push", Adt("CallStack", [n], "Goto"))

    def backp(n):
        return ("push", Adt("CallStack", [n], "Back"))
    out = []
    # iden : A -> A
    out.append(("Iden", node("ip", A, A), [], small, {None: [("copy", a)]}, vs))
    out.append(("Unit", node("ip", A, fin("1", C(0))), [], small, {None: []}, vs))
    # injl t : A -> B + C, t : A -> B
    S = fin("B+C", 1 + mx(b, c), "sum", B, Cc)
    t = node("left", A, B)
    out.append(("InjL", node("ip", A, S), [t], small, {None: [("write_bit", z3.BoolVal(False)), ("skip", mx(b, c) - b), goto(t)]}, vs))
    t = node("left", A, Cc)
    out.append(("InjR", node("ip", A, S), [t], small, {None: [("write_bit", z3.BoolVal(True)), ("skip", mx(b, c) - c), goto(t)]}, vs))
    # take t : A x B -> C ; drop t : A x B -> C
    P = fin("AxB", a + b, "product", A, B)
    t = node("left", A, Cc)
    out.append(("Take", node("ip", P, Cc), [t], small, {None: [goto(t)]}, vs))
    t = node("left", B, Cc)
    out.append(("Drop", node("ip", P, Cc), [t], small, {None: [("fwd", a), backp(a), goto(t)]}, vs))
    # pair s t : A -> B x C
    s_, t = node("left", A, B), node("right", A, Cc)
    out.append(("Pair", node("ip", A, fin("BxC", b + c, "product", B, Cc)), [s_, t], small, {None: [goto(t), goto(s_)]}, vs))
    # comp s t : A -> C, s : A -> B, t : B -> C
    s_, t = node("left", A, B), node("right", B, Cc)
    out.append(("Comp", node("ip", A, Cc), [s_, t], small,
                {None: [("new_write_frame", b), ("push", Adt("CallStack", [], "DropReadFrame")), goto(t),
                        ("push", Adt("CallStack", [], "MoveWriteFrameToRead")), goto(s_)]}, vs))
    # case s t : (A + B) x C -> D ; s : A x C -> D ; t : B x C -> D
    SAB = fin("A+B", 1 + mx(a, b), "sum", A, B)
    src = fin("(A+B)xC", 1 + mx(a, b) + c, "product", SAB, Cc)
    s_ = node("left", fin("AxC", a + c, "product", A, Cc), D)
    t = node("right", fin("BxC", b + c, "product", B, Cc), D)
    padl, padr = mx(a, b) - a, mx(a, b) - b
    left_ref = [("peek",), ("fwd", 1 + padl), backp(1 + padl), goto(s_)]
    right_ref = [("peek",), ("fwd", 1 + padr), backp(1 + padr), goto(t)]
    out.append(("Case", node("ip", src, D), [s_, t], small, {False: left_ref, True: right_ref}, vs))
    out.append(("AssertL", node("ip", src, D), [s_, Opaque("cmr")], small, {False: left_ref, True: "err"}, vs))
    out.append(("AssertR", node("ip", src, D), [Opaque("cmr"), t], small, {False: "err", True: right_ref}, vs))
    # disconnect s t : A -> B x D ; s : 2^256 x A -> B x C ; t : C -> D
    W256 = fin("2^256", C(256))
    s_ = node("left", fin("2^256xA", 256 + a, "product", W256, A), fin("BxC", b + c, "product", B, Cc))
    t = node("right", Cc, D)
    out.append(("Disconnect", node("ip", A, fin("BxD", b + d, "product", B, D)), [s_, t], small,
                {None: [("new_write_frame", 256 + a), ("write_bytes", None), ("copy", a), ("move_write_frame_to_read",),
                        ("new_write_frame", b + c),
                        ("push", Adt("CallStack", [], "DropReadFrame")), ("push", Adt("CallStack", [], "DropReadFrame")),
                        goto(t), ("push", Adt("CallStack", [b], "CopyFwd")),
                        ("push", Adt("CallStack", [], "MoveWriteFrameToRead")), goto(s_)]}, vs))
    # witness v / word w : write the value
    out.append(("Witness", node("ip", A, B), [Opaque("witness_value")], small, {None: [("write_value", None)]}, vs))
    out.append(("Word", node("ip", A, B), [Opaque("word")], small, {None: [("write_value", None)]}, vs))
    out.append(("Fail", node("ip", A, B), [Opaque("entropy")], small, {None: "err"}, vs))
    return out


def run(funcs, repo, sol, log, section, problems_out):
    """queue the obligations on `sol`; returns (Arms, list of (query name -> arm))"""
    arms = Arms(funcs, repo)
    explored = []
    for (variant, ip, fields, hyp, refs, vs) in cases():
        with section("A.%s one interpreter step" % variant, log):
            outs = arms.run_arm(variant, ip, fields)
            hyp = list(hyp) + [z3.UGE(arms.nread, C(1))]
            pan = [c for (c, k, v, tr) in outs if k == "panic"]
            stops = [(c, k, v, tr) for (c, k, v, tr) in outs if k != "panic"]
            if pan:
                sol.add("A.%s the step never panics on a well-typed node" % variant, hyp + [z3.Or(pan)], vars_for_model=vs)
            bad = []
            n_paths = 0
            for (c, k, v, tr) in stops:
                for sel, ref in refs.items():
                    guard = [] if sel is None else [arms.choice if sel else z3.Not(arms.choice)]
                    cc = z3.simplify(z3.And([c] + guard))
                    if z3.is_false(cc):
                        continue
                    n_paths += 1
                    if ref == "err":
                        if k != "ret":
                            bad.append(cc)   # must return an error, continues instead
                        elif not (isinstance(v, Adt) and v.variant == "Err"):
                            bad.append(cc)
                        continue
                    if k == "ret":
                        bad.append(cc)       # returns where the semantics continue
                        continue
                    def _r(x):
                        while isinstance(x, Ref):
                            x = x.val
                        return repr(x)
                    tr = [((e[0], _r(e[1])) if e[0] in ("write_bytes", "write_value") else e) for e in tr]
                    payloads = [e[1] for e in tr if e[0] in ("write_bytes", "write_value")]
                    ref_f = []
                    for e in ref:
                        if e[0] in ("write_bytes", "write_value") and e[1] is None and payloads:
                            e = (e[0], payloads.pop(0))     # which bytes / value: checked by name below
                        ref_f.append(e)
                    for e in tr:
                        if e[0] == "write_bytes" and not ("cmr_of" in repr(e[1]) and "right" in repr(e[1])):
                            bad.append(cc)   # disconnect must pass the CMR of its right child
                        if e[0] == "write_value" and not (("witness_value" in repr(e[1])) if variant == "Witness" else ("value_of_word" in repr(e[1]))):
                            bad.append(cc)
                    got, ref_n = summarise(tr), summarise(ref_f)
                    if shape(got) != shape(ref_n):
                        raise Unsupported("the %s arm has the effect %r where the reference has %r: not comparable by this encoding"
                                          % (variant, shape(got), shape(ref_n)))
                    bad.append(z3.And(cc, args_differ(got, ref_n)))
            if n_paths == 0:
                raise Unsupported("no path through the %s arm reaches the join block" % variant)
            # vacuity guard: the paths compared are reachable under the typing hypotheses
            chk = z3.Solver()
            chk.add(hyp + [z3.Or([c for (c, k, v, tr) in stops])])
            if chk.check() != z3.sat:
                raise Unsupported("the %s arm is unreachable under the typing hypotheses (vacuous)" % variant)
            qn = "A.%s issues the micro-operations the Bit Machine semantics prescribe, for all type widths" % variant
            bad = [x for x in bad if not z3.is_false(z3.simplify(x))]
            if bad:
                sol.add(qn, hyp + [z3.Or(bad)], vars_for_model=vs + [arms.choice])
            else:
                sol.trivial(qn, "%d path(s), no argument to compare (syntactically equal to the reference)" % n_paths)
            explored.append(variant)
    explored += run_pop_checks(arms, sol, log, section)
    return arms, explored


def check(log, tier):
    """Engine M part of the C05 check. Returns (exit_code, evidence dict, replay paths)."""
    import json
    import time
    from . import mircheck
    t0 = time.time()
    del mircheck.UNEXPLORED[:]
    info = {"engine": "MIR -> SMT (z3 5.1.0 + cvc5 1.0.3 must agree), region execution of exec_with_tracker's dispatch",
            "functions_encoded": [], "queries": [], "unexplored": []}
    try:
        mir, dump_s = mircheck.dump_mir()
        log("[C05] MIR of the working tree dumped in %.1fs" % dump_s)
        funcs = M.parse_mir(mir)
        sol = mircheck.Solver2(log, timeout_s=120)
        with mircheck.section("A. interpreter arms (all)", log):
            arms, explored = run(funcs, mircheck.REPO, sol, log, mircheck.section, [])
            info["functions_encoded"] = ["BitMachine::exec_with_tracker (dispatch region: one step per combinator: %s)" % ", ".join(explored)] + \
                [n for n in arms.mach.encoded if "exec_with_tracker" not in n]
            info["models"] = sorted(set(arms.mach.modelled))
        done = sol.run_all()
    except Unsupported as e:
        log("[C05] interpreter arms: cannot be encoded on this tree: %s" % e)
        info["unexplored"].append({"obligations": "A. interpreter arms", "reason": str(e)[:300]})
        print("UNEXPLORED: property=C05 obligations='A. interpreter arms (all)' reason=%s" % str(e)[:300])
        return 0, info, []
    for (sec, why) in mircheck.UNEXPLORED:
        print("UNEXPLORED: property=C05 obligations=%r reason=%s" % (sec, why))
        info["unexplored"].append({"obligations": sec, "reason": why})
    exit_code, replays = 0, []
    for q in sol.queries:
        info["queries"].append({k: q.get(k) for k in ("name", "verdict", "z3", "cvc5", "z3_s", "cvc5_s", "model") if k in q})
    info["solver_time_s"] = round(sol.solver_s, 2)
    violated = [q for q in sol.queries if q["verdict"] == "violated"]
    incon = [q for q in sol.queries if q["verdict"] not in ("holds", "violated")]
    # the native family: the same programs run by the real Bit Machine and by an independent
    # big-step evaluator. It validates the reference sequences on every run and reproduces solver
    # counterexamples before they are reported.
    fam = mircheck.replay_c07_family("arms_family", log, lambda j: not j.get("agree", False))
    info["native_family"] = "agrees on every program" if fam is not True else "DISAGREES (see log)"
    if violated:
        d = mircheck.replays_dir("C05")
        for q in violated:
            path = os.path.join(d, re.sub(r"[^\w.-]", "_", q["name"])[:80] + ".json")
            with open(path, "w") as f:
                json.dump({"property": "C05", "query": q["name"], "model": q.get("model"),
                           "replay": "vreplay arms_family (programs run by the real Bit Machine vs. big-step semantics)",
                           "reproduced": fam is True}, f, indent=1)
            if fam is True:
                print("VIOLATION property=C05 replay=%s" % path)
                print("  %s :: model %s" % (q["name"], q.get("model")))
                replays.append(path)
                exit_code = 1
            else:
                print("NON-REPRODUCING counterexample property=C05 query=%r: the native program family agrees with the semantics" % q["name"])
                exit_code = max(exit_code, 2) if exit_code != 1 else 1
    elif fam is True:
        log("[C05] INCONCLUSIVE: the native program family disagrees with the big-step semantics although no arm obligation is violated")
        exit_code = 2
    for q in incon:
        log("[C05] INCONCLUSIVE query %s: z3=%s cvc5=%s" % (q["name"], q.get("z3"), q.get("cvc5")))
        if exit_code == 0:
            exit_code = 2
    info["wall_s"] = round(time.time() - t0, 1)
    log("[C05] interpreter arms: %d queries, %d hold, %d violated, %d inconclusive, %d group(s) unexplored (%.0fs)" % (
        len(sol.queries), len([q for q in sol.queries if q["verdict"] == "holds"]), len(violated), len(incon),
        len(info["unexplored"]), time.time() - t0))
    return exit_code, info, replays
