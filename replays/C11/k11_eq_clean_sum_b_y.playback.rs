// Kani concrete playback for harness k11_eq_clean_sum_b_y (module c10k.rs)
// replay: vcheck.py --replay /verif/replays/C11/k11_eq_clean_sum_b_y.playback.rs
#[test]
fn kani_concrete_playback_k11_eq_clean_sum_b_y_16564725408979996317() {
    let concrete_vals: Vec<Vec<u8>> = vec![
        // 227
        vec![227],
        // 128
        vec![128],
        // 0
        vec![0],
        // 1
        vec![1],
        // 2ul
        vec![2, 0, 0, 0, 0, 0, 0, 0],
        // 142
        vec![142],
        // 0
        vec![0],
        // 2
        vec![2],
        // 1
        vec![1],
        // 0ul
        vec![0, 0, 0, 0, 0, 0, 0, 0],
    ];
    kani::concrete_playback_run(concrete_vals, k11_eq_clean_sum_b_y);
}