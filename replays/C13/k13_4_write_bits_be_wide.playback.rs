// Kani concrete playback for harness k13_4_write_bits_be_wide (module c13.rs)
// replay: vcheck.py --replay /verif/replays/C13/k13_4_write_bits_be_wide.playback.rs
#[test]
fn kani_concrete_playback_k13_4_write_bits_be_wide_17784766928240769439() {
    let concrete_vals: Vec<Vec<u8>> = vec![
        // 0ul
        vec![0, 0, 0, 0, 0, 0, 0, 0],
        // 255
        vec![255],
        // 18446744073709551615ul
        vec![255, 255, 255, 255, 255, 255, 255, 255],
        // 64ul
        vec![64, 0, 0, 0, 0, 0, 0, 0],
    ];
    kani::concrete_playback_run(concrete_vals, k13_4_write_bits_be_wide);
}