// Kani concrete playback for harness k11_eq_clean_prod_sum (module c10k.rs)
// replay: vcheck.py --replay /verif/replays/C11/k11_eq_clean_prod_sum.playback.rs
#[test]
fn kani_concrete_playback_k11_eq_clean_prod_sum_5843822175777030863() {
    let concrete_vals: Vec<Vec<u8>> = vec![
        // 244
        vec![244],
        // 16
        vec![16],
        // 16
        vec![16],
        // 16
        vec![16],
        // 0ul
        vec![0, 0, 0, 0, 0, 0, 0, 0],
        // 180
        vec![180],
        // 180
        vec![180],
        // 180
        vec![180],
        // 180
        vec![180],
        // 0ul
        vec![0, 0, 0, 0, 0, 0, 0, 0],
    ];
    kani::concrete_playback_run(concrete_vals, k11_eq_clean_prod_sum);
}