#!/usr/bin/env python3
"""Setup after a fresh restore (offline): pre-build the Kani dependency graph, the
replay binary and the MIR target so that the first check does not pay for them."""
import os, subprocess, sys
V = os.path.dirname(os.path.abspath(__file__))
env = dict(os.environ, CARGO_NET_OFFLINE="true")
W = os.path.join(V, ".work")
os.makedirs(W, exist_ok=True)
rc = 0
steps = [
    (["cargo", "kani", "--only-codegen", "-Z", "stubbing", "--harness", "k13_1_reader_ops", "--target-dir", os.path.join(W, "kani-target")], os.path.join(V, "kani-harness")),
    (["cargo", "build", "--offline", "--target-dir", os.path.join(W, "replay-target")], os.path.join(V, "replay")),
    (["cargo", "build", "--offline", "--release", "--target-dir", os.path.join(W, "replay-target")], os.path.join(V, "replay")),
    # dependencies of the MIR dump (Engine M); the dump itself is redone from the working tree on every check
    (["cargo", "+nightly", "build", "--offline", "--lib", "--target-dir", os.path.join(W, "mir-target")], "/repo"),
]
for cmd, cwd in steps:
    print("$", " ".join(cmd), flush=True)
    p = subprocess.run(cmd, cwd=cwd, env=env, stdout=subprocess.PIPE, stderr=subprocess.STDOUT, text=True)
    print("\n".join(p.stdout.splitlines()[-5:]))
    rc |= p.returncode
sys.exit(1 if rc else 0)
