//! Native replay of solver models against the real code of /repo (ordinary build).
use simplicity::elements::encode::Encodable;
use simplicity::{bitcoin, Cost};

fn cost_val(c: Cost) -> u64 {
    c.to_string().parse().unwrap()
}

fn budget(args: &[String]) {
    let cost: u32 = args[0].parse().unwrap();
    let mut stack: Vec<Vec<u8>> = args[1..]
        .iter()
        .map(|a| vec![0u8; a.parse::<usize>().unwrap()])
        .collect();
    let cost = Cost::from_milliweight(cost);
    let n = stack.len();
    let ser = stack.consensus_encode(&mut std::io::sink()).unwrap();
    let valid = cost.is_budget_valid(&stack);
    let pad = cost.get_padding(&stack);
    let mut out = format!(
        "{{\"serialized_len\": {}, \"valid\": {}, \"padding_len\": {}",
        ser,
        valid,
        pad.as_ref().map(|p| p.len().to_string()).unwrap_or("null".into())
    );
    if let Some(p) = pad {
        let wellformed = p[0] == 0x50 && p[1..].iter().all(|b| *b == 0);
        stack.push(p.clone());
        let with = cost.is_budget_valid(&stack);
        stack.pop();
        let shorter = if p.len() >= 2 {
            stack.push(p[..p.len() - 1].to_vec());
            let v = cost.is_budget_valid(&stack);
            stack.pop();
            v
        } else {
            false
        };
        let cs = |x: usize| if x < 253 { 1 } else if x <= 0xffff { 3 } else { 5 };
        out += &format!(
            ", \"valid_with_annex\": {}, \"valid_with_shorter_annex\": {}, \"count_cs_stable\": {}, \"annex_wellformed\": {}",
            with, shorter, cs(n) == cs(n + 1), wellformed
        );
    }
    println!("{}}}", out);
}

fn convert(args: &[String]) {
    let v: Vec<u64> = args.iter().map(|a| a.parse().unwrap()).collect();
    let (c1, c2, w1, w2, wu) = (v[0] as u32, v[1] as u32, v[2], v[3], v[4]);
    let w = |c: u32| bitcoin::Weight::from(Cost::from_milliweight(c)).to_wu();
    let c = |w: u64| cost_val(Cost::from(bitcoin::Weight::from_wu(w)));
    let w1c = c(w1);
    println!(
        "{{\"c1_w\": {}, \"c2_w\": {}, \"w1_c\": {}, \"w2_c\": {}, \"w1_c_w\": {}, \"c1_bw\": {}, \"wu_c\": {}}}",
        w(c1), w(c2), w1c, c(w2), w(w1c as u32), w(c1), c(wu)
    );
}

fn main() {
    let args: Vec<String> = std::env::args().skip(1).collect();
    match args[0].as_str() {
        "budget" => budget(&args[1..]),
        "convert" => convert(&args[1..]),
        _ => {
            eprintln!("usage: vreplay budget <cost> <item sizes..> | convert c1 c2 w1 w2 wu");
            std::process::exit(2)
        }
    }
}
