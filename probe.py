#!/usr/bin/env python3-vt
"""probe.py <PROP> <harness> <seconds>: run cbmc verbosely for a while and summarise where symex is"""
import sys, os, glob, json, subprocess, re, collections
sys.path.insert(0, os.path.dirname(os.path.abspath(__file__)))
from vlib import kani, registry
prop, hn, secs = sys.argv[1], sys.argv[2], int(sys.argv[3])
found = {}
for md in glob.glob(os.path.join(kani.TARGET, "kani", "*", "debug", "build", "vharness", "*", "out", "*.kani-metadata.json")):
    m = json.load(open(md))
    for h in m["proof_harnesses"]:
        found[h["pretty_name"].split("::")[-1]] = {"mangled": h["mangled_name"], "out": h["goto_file"].replace(".symtab.out", ".out"), "unwind": h["attributes"].get("unwind_value"), "pretty": h["pretty_name"]}
h = [x for x in registry.PROPS[prop]["harnesses"] if x.name == hn][0]
info = found[hn]
wd = os.path.join(kani.WORK, "manual"); os.makedirs(wd, exist_ok=True)
gb = kani.prepare(info, wd)
pm = kani.load_pretty_map(info)
labels, rep = kani.resolve_unwindset(h, info, gb, pm)
unwind = h.unwind if h.unwind is not None else info["unwind"]
cmd = ["cbmc"] + kani.CBMC_FLAGS + os.environ.get("PROBE_FLAGS", "").split() + ["--unwind", str(unwind)] + (["--unwindset", ",".join(labels)] if labels else []) + [gb, "--verbosity", "9"]
out = os.path.join(wd, "out.txt")
with open(out, "w") as f:
    try:
        subprocess.run(cmd, stdout=f, stderr=subprocess.STDOUT, timeout=secs)
        print("FINISHED within", secs)
    except subprocess.TimeoutExpired:
        print("still running after", secs)
txt = open(out, errors="replace").read()
lines = txt.split("\n")
print("lines", len(lines))
c = collections.Counter()
for m in re.finditer(r"Unwinding (loop|recursion) (\S+) iteration (\d+).*? function (.*?) thread", txt):
    c[(m.group(1), m.group(4)[:110])] += 1
for k, v in c.most_common(25):
    print(v, k)
for l in lines[-6:]:
    print("TAIL", l[:260])
for l in lines:
    if re.search(r"variables|Runtime|size of program|Generated \d+ VCC|SAT checker", l):
        print("STAT", l[:120])
