//! Infallible fixed-size byte sink (DESIGN 1.5(5)): no `io::Error` is ever built.
use std::io;

pub struct Sink<const N: usize> {
    pub buf: [u8; N],
    pub len: usize,
}

impl<const N: usize> Sink<N> {
    pub fn new() -> Self {
        Sink { buf: [0; N], len: 0 }
    }
}

impl<const N: usize> io::Write for Sink<N> {
    fn write(&mut self, b: &[u8]) -> io::Result<usize> {
        let mut i = 0;
        while i < b.len() {
            assert!(self.len < N, "sink overflow: harness bound too small");
            self.buf[self.len] = b[i];
            self.len += 1;
            i += 1;
        }
        Ok(b.len())
    }
    fn write_all(&mut self, b: &[u8]) -> io::Result<()> {
        self.write(b).map(|_| ())
    }
    fn flush(&mut self) -> io::Result<()> {
        Ok(())
    }
}
