// Kani concrete playback for harness k13_2_window_ops (module c13.rs)
// replay: vcheck.py --replay /verif/replays/C13/k13_2_window_ops.playback.rs
#[test]
fn kani_concrete_playback_k13_2_window_ops_8770226567232795149() {
    let concrete_vals: Vec<Vec<u8>> = vec![
        // 128
        vec![128],
        // 128
        vec![128],
        // 128
        vec![128],
        // 8ul
        vec![8, 0, 0, 0, 0, 0, 0, 0],
        // 9ul
        vec![9, 0, 0, 0, 0, 0, 0, 0],
        // 0
        vec![0],
        // 1
        vec![1],
    ];
    kani::concrete_playback_run(concrete_vals, k13_2_window_ops);
}
