//! C18 — DAG iteration: post-order (ltr and rtl), pre-order and the sharing
//! check over a *symbolic* graph of up to N nodes with a symbolic sharing
//! relation. Oracle: recursive depth-first traversals written independently.
use simplicity::dag::{Dag, DagLike, NoSharing, SharingTracker, SwapChildren};

pub const MAXN: usize = 4;
pub const MAXITEMS: usize = 15; // tree expansion of a 4-node DAG without sharing

#[derive(Clone, Copy)]
pub struct NodeData {
    idx: usize,
}

pub struct Graph {
    n: usize,
    kind: [u8; MAXN], // 0 nullary, 1 unary, 2 binary
    l: [usize; MAXN],
    r: [usize; MAXN],
    /// sharing class of each node (a congruence: same class => same kind and
    /// children pairwise in the same class)
    cls: [usize; MAXN],
    data: [NodeData; MAXN],
}

#[derive(Clone, Copy)]
pub struct G<'a>(usize, &'a Graph);

impl<'a> DagLike for G<'a> {
    type Node = NodeData;
    fn data(&self) -> &NodeData {
        &self.1.data[self.0]
    }
    fn as_dag_node(&self) -> Dag<Self> {
        let g = self.1;
        match g.kind[self.0] {
            0 => Dag::Nullary,
            1 => Dag::Unary(G(g.l[self.0], g)),
            _ => Dag::Binary(G(g.l[self.0], g), G(g.r[self.0], g)),
        }
    }
}

/// Symbolic DAG: node i may only point to nodes j < i (acyclic), root = n-1.
fn any_graph(n: usize) -> Graph {
    let mut g = Graph {
        n,
        kind: [0; MAXN],
        l: [0; MAXN],
        r: [0; MAXN],
        cls: [0; MAXN],
        data: [NodeData { idx: 0 }; MAXN],
    };
    let mut i = 0;
    while i < MAXN {
        g.data[i].idx = i;
        g.cls[i] = i;
        if i < n {
            let k: u8 = kani::any();
            kani::assume(k <= 2);
            if i == 0 {
                kani::assume(k == 0);
            }
            g.kind[i] = k;
            if k >= 1 {
                let l: usize = kani::any();
                kani::assume(l < i);
                g.l[i] = l;
            }
            if k == 2 {
                let r: usize = kani::any();
                kani::assume(r < i);
                g.r[i] = r;
            }
        }
        i += 1;
    }
    g
}

/// Make `cls` an arbitrary congruence (class id = smallest member).
fn any_congruence(g: &mut Graph) {
    let mut i = 0;
    while i < MAXN {
        if i < g.n {
            let c: usize = kani::any();
            kani::assume(c <= i);
            // representative must be its own class
            kani::assume(g.cls[c] == c);
            if c != i {
                kani::assume(g.kind[c] == g.kind[i]);
                if g.kind[i] >= 1 {
                    kani::assume(g.cls[g.l[c]] == g.cls[g.l[i]]);
                }
                if g.kind[i] == 2 {
                    kani::assume(g.cls[g.r[c]] == g.cls[g.r[i]]);
                }
            }
            g.cls[i] = c;
        }
        i += 1;
    }
}

/// Array-backed tracker keyed by sharing class (pointer sharing = identity classes).
#[derive(Clone)]
pub struct ClassTracker {
    seen: [Option<usize>; MAXN],
}
impl Default for ClassTracker {
    fn default() -> Self {
        ClassTracker { seen: [None; MAXN] }
    }
}
// the graph is reachable through the node handle, so the tracker needs no state but indices
impl<'a> SharingTracker<G<'a>> for ClassTracker {
    fn record(&mut self, d: &G<'a>, index: usize) -> Option<usize> {
        let c = d.1.cls[d.0];
        match self.seen[c] {
            Some(i) => Some(i),
            None => {
                self.seen[c] = Some(index);
                None
            }
        }
    }
    fn seen_before(&self, d: &G<'a>) -> Option<usize> {
        self.seen[d.1.cls[d.0]]
    }
}
thread_local! {}
// for the right-to-left iterator the tracker sees SwapChildren<G>; its inner
// handle is private, so the class is found through the node data and a
// graph pointer kept by the harness
static mut CUR_CLS: [usize; MAXN] = [0; MAXN];
impl<'a> SharingTracker<SwapChildren<G<'a>>> for ClassTracker {
    fn record(&mut self, d: &SwapChildren<G<'a>>, index: usize) -> Option<usize> {
        let c = unsafe { CUR_CLS[d.data().idx] };
        match self.seen[c] {
            Some(i) => Some(i),
            None => {
                self.seen[c] = Some(index);
                None
            }
        }
    }
    fn seen_before(&self, d: &SwapChildren<G<'a>>) -> Option<usize> {
        self.seen[unsafe { CUR_CLS[d.data().idx] }]
    }
}

#[derive(Clone, Copy)]
struct Item {
    node: usize,
    left: Option<usize>,
    right: Option<usize>,
}

struct Seq {
    items: [Item; MAXITEMS],
    n: usize,
}

/// Oracle: recursive post-order with sharing by class; `rtl` visits the right
/// child first. `share == false` expands the DAG into a tree.
fn oracle_post(g: &Graph, i: usize, share: bool, rtl: bool, seen: &mut [Option<usize>; MAXN], out: &mut Seq) -> usize {
    if share {
        if let Some(idx) = seen[g.cls[i]] {
            return idx;
        }
    }
    let (mut li, mut ri) = (None, None);
    match g.kind[i] {
        0 => {}
        1 => li = Some(oracle_post(g, g.l[i], share, rtl, seen, out)),
        _ => {
            if rtl {
                ri = Some(oracle_post(g, g.r[i], share, rtl, seen, out));
                li = Some(oracle_post(g, g.l[i], share, rtl, seen, out));
            } else {
                li = Some(oracle_post(g, g.l[i], share, rtl, seen, out));
                ri = Some(oracle_post(g, g.r[i], share, rtl, seen, out));
            }
        }
    }
    // a descendant of the same class may have been yielded meanwhile only if
    // the congruence were ill-formed; classes are well-founded here
    let idx = out.n;
    out.items[idx] = Item { node: i, left: li, right: ri };
    out.n += 1;
    if share {
        seen[g.cls[i]] = Some(idx);
    }
    idx
}

fn oracle_pre(g: &Graph, i: usize, seen: &mut [bool; MAXN], out: &mut Seq) {
    if seen[g.cls[i]] {
        return;
    }
    seen[g.cls[i]] = true;
    out.items[out.n] = Item { node: i, left: None, right: None };
    out.n += 1;
    if g.kind[i] >= 1 {
        oracle_pre(g, g.l[i], seen, out);
    }
    if g.kind[i] == 2 {
        oracle_pre(g, g.r[i], seen, out);
    }
}

fn new_seq() -> Seq {
    Seq { items: [Item { node: 0, left: None, right: None }; MAXITEMS], n: 0 }
}

fn check_post<'a, I: Iterator<Item = simplicity::dag::PostOrderIterItem<G<'a>>>>(mut it: I, want: &Seq, maxitems: usize) {
    let mut k = 0;
    while k <= maxitems {
        match it.next() {
            Some(item) => {
                assert!(k < want.n, "iterator yields more items than the reference traversal");
                assert!(item.index == k, "indices are not consecutive");
                assert!(item.node.0 == want.items[k].node, "wrong node order");
                assert!(item.left_index == want.items[k].left, "left child index is not where that child was yielded");
                assert!(item.right_index == want.items[k].right, "right child index is not where that child was yielded");
            }
            None => {
                assert!(k == want.n, "iterator stops before every node was yielded");
                break;
            }
        }
        k += 1;
    }
    std::mem::forget(it);
}

fn post_order_harness(n: usize, share: bool, congruence: bool, rtl: bool, maxitems: usize) {
    let mut g = any_graph(n);
    if congruence {
        any_congruence(&mut g);
    }
    unsafe {
        CUR_CLS = g.cls;
    }
    let mut want = new_seq();
    let mut seen = [None; MAXN];
    oracle_post(&g, n - 1, share, rtl, &mut seen, &mut want);
    kani::assume(want.n <= maxitems);
    let root = G(n - 1, &g);
    match (share, rtl) {
        (true, false) => check_post(root.post_order_iter::<ClassTracker>(), &want, maxitems),
        (true, true) => check_post(root.rtl_post_order_iter::<ClassTracker>(), &want, maxitems),
        (false, false) => check_post(root.post_order_iter::<NoSharing>(), &want, maxitems),
        (false, true) => check_post(root.rtl_post_order_iter::<NoSharing>(), &want, maxitems),
    }
    kani::cover!(want.n == maxitems, "largest traversal reached");
    kani::cover!(g.kind[n - 1] == 2 && g.l[n - 1] == g.r[n - 1], "repeated child");
}

#[kani::proof]
#[kani::unwind(9)]
fn k18_post_ptr_n3() {
    post_order_harness(3, true, false, false, 3)
}
#[kani::proof]
#[kani::unwind(9)]
fn k18_post_cls_n3() {
    post_order_harness(3, true, true, false, 3)
}
#[kani::proof]
#[kani::unwind(9)]
fn k18_post_nosharing_n3() {
    post_order_harness(3, false, false, false, 7)
}
#[kani::proof]
#[kani::unwind(9)]
fn k18_rtl_ptr_n3() {
    post_order_harness(3, true, false, true, 3)
}
#[kani::proof]
#[kani::unwind(9)]
fn k18_rtl_cls_n3() {
    post_order_harness(3, true, true, true, 3)
}
#[kani::proof]
#[kani::unwind(9)]
fn k18_rtl_nosharing_n3() {
    post_order_harness(3, false, false, true, 7)
}
#[kani::proof]
#[kani::unwind(11)]
fn k18_post_ptr_n4() {
    post_order_harness(4, true, false, false, 4)
}
#[kani::proof]
#[kani::unwind(11)]
fn k18_post_cls_n4() {
    post_order_harness(4, true, true, false, 4)
}
#[kani::proof]
#[kani::unwind(17)]
fn k18_post_nosharing_n4() {
    post_order_harness(4, false, false, false, 15)
}
#[kani::proof]
#[kani::unwind(11)]
fn k18_rtl_cls_n4() {
    post_order_harness(4, true, true, true, 4)
}

fn pre_order_harness(n: usize, congruence: bool) {
    let mut g = any_graph(n);
    if congruence {
        any_congruence(&mut g);
    }
    let mut want = new_seq();
    let mut seen = [false; MAXN];
    oracle_pre(&g, n - 1, &mut seen, &mut want);
    let root = G(n - 1, &g);
    let mut it = root.pre_order_iter::<ClassTracker>();
    let mut k = 0;
    while k <= n {
        match it.next() {
            Some(node) => {
                assert!(k < want.n, "pre-order yields more nodes than the reference");
                assert!(node.0 == want.items[k].node, "pre-order: wrong node order (parents first, left before right)");
            }
            None => {
                assert!(k == want.n, "pre-order stops early");
                break;
            }
        }
        k += 1;
    }
    std::mem::forget(it);
    kani::cover!(want.n == n, "all nodes reachable");
}

#[kani::proof]
#[kani::unwind(9)]
fn k18_pre_ptr_n3() {
    pre_order_harness(3, false)
}
#[kani::proof]
#[kani::unwind(9)]
fn k18_pre_cls_n3() {
    pre_order_harness(3, true)
}
#[kani::proof]
#[kani::unwind(11)]
fn k18_pre_cls_n4() {
    pre_order_harness(4, true)
}

#[kani::proof]
#[kani::unwind(9)]
fn k18_dbg_pre_n2() {
    pre_order_harness(2, false)
}
