#!/usr/bin/env python3
"""Regenerates MANIFEST.json from the table below (kept in one place so it stays valid)."""
import json, os
V = os.path.dirname(os.path.abspath(__file__))

CHECKS = {
 "C13": dict(
   technique="bounded model checking of the real code: Kani 0.68 -> CBMC 6.11 (CaDiCaL) over #[kani::proof] harnesses with symbolic bytes/numbers/op sequences",
   category="model_checking",
   text="SAT-decided for every input inside the bounds: every 3-byte string and every sequence of 4 read/write operations at every alignment; naturals through encoder and decoder: quick [1,2^12) with u32 result and symbolic bound, [1,2^17) with u16 result, [1,2^16) with usize result; thorough [1,2^32) plus must-reject [2^32,2^34); decoder canonicity on arbitrary byte strings split by unary-prefix depth k: quick k<=2 (3 bytes), thorough k<=6 (up to 7 bytes); unwinding assertions on. Bounded, not a proof.",
   design_ref="DESIGN.md §2 C13",
   note="trusted: Kani/CBMC/CaDiCaL, Kani's dev-profile model on its pinned nightly, infallible io sink; outside: longer strings / op sequences, write failure"),
 "C19": dict(
   technique="MIR->SMT symbolic execution (own translator over rustc nightly MIR) of the loop-free budget kernels; z3 5.1.0 and cvc5 1.0.3 must both answer unsat",
   category="model_checking",
   text="SMT-decided over all 32-bit costs up to the consensus maximum and all serialized stack sizes / item counts below 2^32 (no loop, so no unrolling bound): validity <=> weight <= size+50, padding None <=> valid, annex sufficient, annex minimal off the CompactSize count edge, no panic, conversions round up / monotone / saturate. Translator validated on the repo's own test vectors against the native build on every run.",
   design_ref="DESIGN.md §2 C19",
   note="trusted: CompactSize model of elements' consensus_encode, iterator-collect model, core integer helper models, rustc MIR, z3/cvc5; outside: stacks >= 4 GiB, costs above CONSENSUS_MAX On a changed tree, a group of obligations whose function the MIR encoder cannot express is printed as `UNEXPLORED: property=<id> ...`, recorded under coverage.unexplored, and does not affect the exit status (none on the unchanged tree)."),

 "C05": dict(
   technique="two solver engines over the real code: (1) region symbolic execution of BitMachine::exec_with_tracker's per-combinator dispatch from rustc MIR into SMT (z3 + cvc5 must agree) against the Bit Machine's reference instruction sequences, for all type widths; (2) Kani 0.68 -> CBMC 6.11 bounded model checking of the frame micro-operations on symbolic memory at symbolic bit offsets",
   category="model_checking",
   text="Two layers, both solver-decided. Interpreter step: for every core combinator (iden, unit, injl, injr, take, drop, pair, comp, case, assertl, assertr, disconnect, witness, word, fail) the loop-free dispatch region of exec_with_tracker, executed from MIR with the node's and children's types as symbolic 64-bit widths related only by the combinator's typing rule, has exactly the effect the Bit Machine semantics prescribe (which bits are written/copied at which cursor positions, final cursor positions, frames allocated/moved/dropped, entries pushed on the call stack incl. Back/CopyFwd amounts; Final::bit_width/pad_left/pad_right executed from their own MIR), never panics on a well-typed node, and assertions/fail return their error. Micro-operations: on a machine over 5-10 symbolic bytes with every frame at every bit alignment, write_bit/skip/write_u8/write_bytes/copy(0..17 bits; thorough 0..33)/fwd/back/read_bit/peek and the frame iterators move exactly the right bits and nothing else, and the instruction sequences of comp, pair+take/drop, case under drop, injl/injr and disconnect deliver the right bits and restore the frame stacks. The same for each call-stack entry popped by the loop (MoveWriteFrameToRead, DropReadFrame, CopyFwd, Back, Goto) and for the exit path (the result is a value of the program's target type decoded from the rewound output frame). NOT covered: that these regions compose into the loop as written, the entry code before the loop, BitMachine::input, jets and exec_jet (C FFI), Value::from_padded_bits / iter_padded at program level (C10), whole-program runs under the solver (out of reach, DESIGN.md 1.4). A native family of 216 programs (real Bit Machine vs an independent big-step evaluator) validates the reference sequences on every run and replays solver counterexamples.",
   design_ref="DESIGN.md §2 C05",
   note="trusted: the reference instruction sequences (transcribed from the Simplicity technical report's Bit Machine, validated natively on every run), the models of the micro-operations as trace events in the MIR layer (their real code is what the Kani layer checks), Kani/CBMC, rustc MIR, z3/cvc5. An arm whose effect has a different shape from the reference (not just different amounts) is printed as `UNEXPLORED: property=C05 ...`, recorded under coverage.unexplored, and does not affect the exit status (none on the unchanged tree)."),

 "C07": dict(
   technique="MIR->SMT symbolic execution of NodeBounds::*, LimitError::check_program and BitMachine::for_program (z3 + cvc5 must agree), inductive step per combinator against a recurrence model of the interpreter's peak usage",
   category="model_checking",
   text="SMT-decided over all usize type widths and child bounds: each NodeBounds constructor keeps the invariant `bound >= interpreter peak, or bound > hard limit` (one inductive step per combinator, so it covers programs of any size and shape), never overflows, check_program refuses exactly when one of the seven documented sums exceeds its limit, and for_program allocates at least source+target+extra_cells bits and extra_frames+2 frames without arithmetic overflow. The interpreter's peak usage enters as a recurrence model read off exec_with_tracker; it is validated natively on every run against the real interpreter's verif-hooks high-water marks on 12 concrete programs.",
   design_ref="DESIGN.md §2 C07",
   note="trusted: the recurrence model of exec_with_tracker (validated natively, not solver-checked: the real interpreter is out of CBMC's reach, see DESIGN.md), models of cmp::max / Try / vec allocation, rustc MIR, z3/cvc5; outside: jets, execution under Kani (layer 1) On a changed tree, a group of obligations whose function the MIR encoder cannot express is printed as `UNEXPLORED: property=<id> ...`, recorded under coverage.unexplored, and does not affect the exit status (none on the unchanged tree)."),

 "C14": dict(
   technique="MIR->SMT symbolic execution of each family's decode tree, encode table, source/target type tables, Display and FromStr (z3 + cvc5 must agree) over symbolic 24-bit strings and symbolic discriminants",
   category="model_checking",
   text="SMT-decided for every bit string of up to 24 bits (longest code: 22) and every discriminant of Core/Elements/Bitcoin: decode is total, a decoded jet re-encodes to exactly the consumed bits (so codes are injective and prefix-free), every jet's code decodes back to it with arbitrary trailing bits, every name parses back, and every Core jet behind the family prefix bit is an Elements jet with identical name and type names. Tables read from MIR are validated against the native encode/decode/Display/FromStr of all 1267 jets on every run. The clauses about the C tables and extern declarations are not applicable (see level_note).",
   design_ref="DESIGN.md §2 C14",
   note="NOT covered (not applicable to this technique): equality of roots/types/costs with libsimplicity's C tables and arity/types of extern declarations vs C prototypes - static texts across a language boundary, no input to quantify over, C not encodable. Trusted: bit-stream model of BitIter/BitWriter (checked on the real code under C13), rustc MIR, z3/cvc5. On a changed tree, a jet family whose tables the MIR encoder cannot read is printed as `UNEXPLORED: property=C14 ...`, recorded under coverage.unexplored, and does not affect the exit status (none on the unchanged tree)"),

 "C02": dict(
   technique="bounded model checking of the real node decoder: Kani 0.68 -> CBMC 6.11 over #[kani::proof] harnesses, one per node class, bytes/length/position symbolic",
   category="model_checking",
   text="Layer 1 only: SAT-decided totality of bit_encoding::decode::decode_node (reached through the verif-hooks) - for every byte string after the class's code bits, every length and every position it never panics or overflows and every child reference points strictly backwards. Quick: classes without back references (iden/unit, fail + 64 entropy bytes, witness, hidden + CMR, jets) and the one-reference classes (unary, disconnect1, word) through the real read_natural with references < 16 and word length fields 32..63; thorough widens the references to < 2^16 (5-byte strings). The program-level clauses of C02 (canonical order, sharing, hidden-node repetition, trailing bytes/padding, re-encoding equality) are NOT covered: the program-level decoder is out of CBMC's reach (DESIGN.md 1.4).",
   design_ref="DESIGN.md §2 C01/C02",
   note="trusted: Kani/CBMC; Word::from_bits replaced by a model; two-jet stand-in family; Merkle-root and precomputed-type stubs. Outside: everything above a single node; BitIter::close (C13)"),
 "C10": dict(
   technique="bounded model checking of the real value kernels and accessors: Kani 0.68 -> CBMC 6.11, values built from symbolic buffers at symbolic bit offsets through the verif-hooks",
   category="model_checking",
   text="Kernel level only: SAT-decided for every buffer content, bit offset 0..7 and (for copy_bits) every length/alignment: copy_bits, right_shift_1 and the product kernel place exactly the right bits and touch nothing else; for 8 type shapes (unequal sums with padding on either side, unit-heavy and nested products/sums, byte-boundary crossings) the padded width equals the definition, iter_padded yields exactly the value's bits, as_left/as_right/as_product answer by the tag and return parts of the right width at the right offset. The compact encoding, compact decoder and prune are NOT covered (their Vec worklists exhaust 62 GB under CBMC even for a 1-byte value).",
   design_ref="DESIGN.md §2 C10/C11",
   note="trusted: Kani/CBMC; Tmr::sum/product hash-consing stub; precomputed types rebuilt without the thread-local; Arc::drop_slow leaks. Outside: compact codec, prune, from_padded_bits, wide words/buffer/context types"),
 "C11": dict(
   technique="bounded model checking of Value's PartialEq/Ord/Hash: Kani 0.68 -> CBMC 6.11 over pairs of values built from independent symbolic buffers and offsets; independent live-bit oracle",
   category="model_checking",
   text="Kernel level: SAT-decided for every pair of raw-parts values of the same type (4 shapes clean, 2 shapes dirty): == <=> same denoted element, cmp Equal <=> ==, antisymmetry, partial_cmp = Some(cmp), equal values feed identical bytes to any Hasher. Holds on clean buffers; on dirty buffers (sub-value extraction, machine output) the tree violates it: open known finding C11/eq-raw-bytes, reported as KNOWN-FINDING.",
   design_ref="DESIGN.md §2 C10/C11, §4 S1",
   note="trusted: as C10. Thorough adds transitivity of == and cmp over triples of clean values (2 shapes, k11_trans_*). Outside: histories needing the compact decoder or prune, other shapes"),
}

NOT_APPLICABLE = {
 "C01": "whole-program encode/decode round trips walk Arc/Vec/HashMap structures with symbolic control that CBMC cannot execute in reach (a 2-bit Value's compact iterator exhausts 62 GB, DESIGN.md 1.4); node-level framing harnesses (kani-harness/src/c01.rs, `vcheck.py C01`) exist but did not finish within budget, so nothing is claimed",
 "C09": "root computation over converted node forms (Node::convert, finalize, Hiding) walks Arc/Vec worklists out of CBMC's reach; distinct-structure => distinct-root is collision resistance of SHA-256",
 "C12": "needs finalize_unpruned/prune/decode on programs with symbolic witnesses: type inference, Node::convert and Value are out of CBMC's reach (measured); a defect seen natively (ill-typed construction-time witness accepted, later panic) cannot be demonstrated by a check and is only recorded in DESIGN.md",
 "C18": "the iterators keep their worklist in a Vec whose length depends on the (symbolic) graph: typed stores at symbolic offsets into byte-array heap objects make CBMC's formula explode - post-order over all 3-node DAGs did not finish in 15 min, pre-order in 10; a concrete graph would be enumeration of runs. Harnesses kept in kani-harness/src/c18.rs (`vcheck.py C18`)",
 "C03": "oracle is libsimplicity (C, behind FFI): cannot be encoded by Kani/CBMC here; Rust-only arithmetic feeding it is covered under C07/C19",
 "C04": "quantifier is over programs and construction orders only: inference state is a mutex-guarded slab of Arc/GhostCell union-find cells; symbolic program structure does not get past construction under CBMC, and concrete programs would be enumeration of runs, which this technique family excludes",
 "C06": "C evaluator and Elements environment are behind FFI; no jet can be executed under Kani",
 "C08": "pruning's oracle includes libsimplicity's anti-DoS check (FFI) and a HashSet keyed on symbolic hashes; Value::prune itself is covered under C10",
 "C15": "environment marshalling is raw-pointer FFI into C plus elements/secp256k1-zkp serialisation",
 "C16": "policies need secp256k1 keys/signatures (C FFI), an Elements environment and jets",
 "C17": "logos-generated lexer, string-keyed HashMaps and format!-built text over arbitrary &str: loops grow with input, symbolic strings beyond ~4 bytes do not finish",
 "C20": "Kani/CBMC model a single thread; no installed solver-based engine handles Rust threads, thread_local!, mutex contention or C static tables",
}
PENDING = {}

def main():
    props = [json.loads(l)["id"] for l in open(os.path.join(V, "properties.jsonl"))]
    checks = []
    for pid in props:
        if pid in CHECKS:
            c = CHECKS[pid]
            checks.append({
                "property_id": pid,
                "quick_cmd": "python3-vt vcheck.py %s --tier quick" % pid,
                "thorough_cmd": "python3-vt vcheck.py %s --tier thorough" % pid,
                "evidence_file": "evidence/%s.json" % pid,
                "replay_cmd_template": "python3-vt vcheck.py %s --replay {path}" % pid,
                "engine": "kani-cbmc" if "Kani" in c["technique"] and "MIR->SMT" not in c["technique"] and pid != "C05" else "mir2smt",
                "level_claimed": {"category": c["category"], "text": c["text"], "design_ref": c["design_ref"]},
                "level_note": c["note"],
                "technique": c["technique"],
            })
    na = []
    for pid in props:
        if pid in CHECKS:
            continue
        if pid in NOT_APPLICABLE:
            na.append({"property_id": pid, "reason": NOT_APPLICABLE[pid]})
        else:
            na.append({"property_id": pid, "reason": PENDING.get(pid, "claimed in DESIGN.md but its check is not built yet in this tree; not claimed until it is")})
    man = {
        "version": 1,
        "setup_cmd": "python3-vt setup.py",
        "hooks": {
            "guard": "cargo feature `verif-hooks` of simplicity-lang (off by default)",
            "enable": "the harness crates depend on simplicity-lang = { path = \"/repo\", features = [\"verif-hooks\"] }",
            "baseline_off_cmd": "cd /repo && cargo test --workspace --no-fail-fast --offline",
            "source_commits": HOOK_COMMITS,
            "add_only": True,
        },
        "engines": [
            {"name": "kani-cbmc", "path": "vlib/kani.py + kani-harness/", "serves_properties": [p for p in CHECKS if "MIR->SMT" not in CHECKS[p]["technique"]],
             "kind_free_text": "Kani 0.68.0 compiler -> goto binaries -> CBMC 6.11.0 bounded model checking with CaDiCaL; own driver for per-loop unwindsets, parallelism, classification and native replay"},
            {"name": "mir2smt", "path": "vlib/mir2smt.py + vlib/mircheck.py", "serves_properties": [p for p in CHECKS if "MIR->SMT" in CHECKS[p]["technique"] or p == "C05"],
             "kind_free_text": "symbolic execution of rustc nightly MIR of loop-free integer kernels and loop-free regions (vlib/c05arms.py) into bit-vector SMT; z3 + cvc5 cross-checked; native replay binary"},
        ],
        "checks": checks,
        "not_applicable": na,
        "notes": "Single technique family: solver-based checking of the real code (see DESIGN.md). Exit 2 of a check = inconclusive (never a pass).",
    }
    json.dump(man, open(os.path.join(V, "MANIFEST.json"), "w"), indent=1)

import subprocess
HOOK_COMMITS = subprocess.run(["git", "-C", "/repo", "log", "--format=%H %s", "--grep", "^verif-hooks"], stdout=subprocess.PIPE, text=True).stdout.strip().split("\n")
HOOK_COMMITS = [l.split()[0] for l in HOOK_COMMITS if l]
if __name__ == "__main__":
    main()
