// Kani concrete playback for harness k10_acc_sum_b_y (module c10k.rs)
// replay: vcheck.py --replay /verif/replays/C10/k10_acc_sum_b_y.playback.rs
#[test]
fn kani_concrete_playback_k10_acc_sum_b_y_6746113337685672322() {
    let concrete_vals: Vec<Vec<u8>> = vec![
        // 255
        vec![255],
        // 255
        vec![255],
        // 255
        vec![255],
        // 255
        vec![255],
        // 0ul
        vec![0, 0, 0, 0, 0, 0, 0, 0],
        // 31ul
        vec![31, 0, 0, 0, 0, 0, 0, 0],
        // 7ul
        vec![7, 0, 0, 0, 0, 0, 0, 0],
    ];
    kani::concrete_playback_run(concrete_vals, k10_acc_sum_b_y);
}