//! C10 / C11 at kernel level (DESIGN.md §C10 fallback): the bit-copy kernels
//! behind the value constructors, the offset arithmetic of the accessors, the
//! padded iterator and padded decoder, and equality/ordering/hashing — all on
//! values built from *symbolic buffers at symbolic bit offsets* through the
//! verif-hooks. The compact iterator, compact decoder and `prune` walk
//! `Vec<ValueRef>` worklists that CBMC cannot execute in reach (measured) and
//! are outside these harnesses.
use crate::vals::*;
use simplicity::types::Final;
use simplicity::value_verif_hooks as hooks;
use simplicity::{BitIter, Value};
use std::sync::Arc;

fn bit(data: &[u8], p: usize) -> bool {
    (data[p / 8] >> (7 - (p % 8))) & 1 == 1
}

// ------------------------------------------------------------ copy_bits
/// copy_bits(src, so, dst, do, n): afterwards dst[do..do+n) == src[so..so+n)
/// (dst zeroed there beforehand, as every caller guarantees) and every other
/// bit of dst is unchanged.
#[kani::proof]
#[kani::unwind(18)]
fn k10_copy_bits() {
    let src: [u8; 3] = kani::any();
    let mut dst: [u8; 3] = kani::any();
    let so: usize = kani::any();
    let doff: usize = kani::any();
    let n: usize = kani::any();
    kani::assume(n <= 16 && so <= 24 && doff <= 24);
    kani::assume(so + n <= 24 && doff + n <= 24);
    // callers only copy into zeroed destination bits
    let mut i = 0;
    while i < 16 {
        if i < n {
            kani::assume(!bit(&dst, doff + i));
        }
        i += 1;
    }
    let before = dst;
    hooks::copy_bits(&src, so, &mut dst, doff, n);
    let q: usize = kani::any();
    kani::assume(q < 24);
    if q >= doff && q < doff + n {
        assert!(bit(&dst, q) == bit(&src, so + (q - doff)), "copy_bits copied a wrong bit");
    } else {
        assert!(bit(&dst, q) == bit(&before, q), "copy_bits touched a bit outside the destination range");
    }
    kani::cover!(n == 16 && so % 8 == 3 && doff % 8 == 5, "unaligned 16-bit copy");
}

// ------------------------------------------------------------ right_shift_1
/// right_shift_1(buf, off, b): the result starts with b and continues with the
/// old bits from `off` on.
#[kani::proof]
#[kani::unwind(18)]
#[kani::stub(std::sync::Arc::drop_slow, crate::hcons::stub_arc_drop_slow)]
fn k10_right_shift_1() {
    let d: [u8; 2] = kani::any();
    let a: Arc<[u8]> = Arc::from(&d[..]);
    let off: usize = kani::any();
    kani::assume(off <= 15);
    let b: bool = kani::any();
    let (nb, noff) = hooks::right_shift_1(&a, off, b);
    assert!(noff < 8 * nb.len());
    assert!(bit(&nb, noff) == b, "tag bit not written");
    let q: usize = kani::any();
    kani::assume(q < 16 - off);
    assert!(bit(&nb, noff + 1 + q) == bit(&d, off + q), "right_shift_1 lost or moved a data bit");
    // the original buffer is shared, never modified
    assert!(a[0] == d[0] && a[1] == d[1], "right_shift_1 modified the shared source buffer");
    kani::cover!(off == 0, "offset 0: reallocation path");
    kani::cover!(off == 9 && b, "set a bit in place");
    std::mem::forget(nb);
    std::mem::forget(a);
}

// ------------------------------------------------------------ product kernel
/// product(left, lw, right, rw): lw bits of left followed by rw bits of right;
/// a missing side is zero padding. Widths are concrete per harness (they are
/// type widths in every caller), offsets and data symbolic.
fn product_kernel(lw: usize, rw: usize) {
    let dl: [u8; 2] = kani::any();
    let dr: [u8; 2] = kani::any();
    let al: Arc<[u8]> = Arc::from(&dl[..]);
    let ar: Arc<[u8]> = Arc::from(&dr[..]);
    let lo: usize = kani::any();
    let ro: usize = kani::any();
    kani::assume(lo <= 7 && ro <= 7);
    let have_l: bool = kani::any();
    let have_r: bool = kani::any();
    let (nb, noff) = hooks::product(
        if have_l { Some((&al, lo)) } else { None },
        lw,
        if have_r { Some((&ar, ro)) } else { None },
        rw,
    );
    assert!(noff + lw + rw <= 8 * nb.len(), "product buffer too short");
    let q: usize = kani::any();
    kani::assume(q < lw + rw);
    let got = bit(&nb, noff + q);
    if q < lw {
        assert!(got == if have_l { bit(&dl, lo + q) } else { false }, "left component bit wrong");
    } else {
        assert!(got == if have_r { bit(&dr, ro + (q - lw)) } else { false }, "right component bit wrong");
    }
    kani::cover!(have_l && have_r && lo == 5 && ro == 3, "both present, unaligned");
    std::mem::forget(nb);
    std::mem::forget(al);
    std::mem::forget(ar);
}

#[kani::proof]
#[kani::unwind(12)]
#[kani::stub(std::sync::Arc::drop_slow, crate::hcons::stub_arc_drop_slow)]
fn k10_product_kernel_3_5() {
    product_kernel(3, 5)
}
#[kani::proof]
#[kani::unwind(12)]
#[kani::stub(std::sync::Arc::drop_slow, crate::hcons::stub_arc_drop_slow)]
fn k10_product_kernel_9_1() {
    product_kernel(9, 1)
}
#[kani::proof]
#[kani::unwind(12)]
#[kani::stub(std::sync::Arc::drop_slow, crate::hcons::stub_arc_drop_slow)]
fn k10_product_kernel_0_8() {
    product_kernel(0, 8)
}

// ------------------------------------------------------------ accessors on raw values
/// A value of type `code` whose padded bits start at symbolic bit offset `off`
/// of a 4-byte symbolic buffer (everything around it is garbage).
fn raw_value(code: &[u8], t: &TyTab, ty: &Arc<Final>) -> (Value, [bool; MAXW], usize) {
    let w = t.w[t.root];
    let d: [u8; 4] = kani::any();
    let off: usize = kani::any();
    kani::assume(off <= 7 && off + w <= 32);
    let a: Arc<[u8]> = Arc::from(&d[..]);
    let v = hooks::value_from_raw_parts(a, off, Arc::clone(ty));
    let mut bits = [false; MAXW];
    let mut i = 0;
    while i < MAXW {
        if i < w {
            bits[i] = bit(&d, off + i);
        }
        i += 1;
    }
    let _ = code;
    (v, bits, off)
}

fn accessors_core(code: &'static [u8]) {
    let t = parse(code);
    let ty = build(code);
    let root = t.root;
    let w = t.w[root];
    assert!(ty.bit_width() == w, "Final::bit_width differs from the definition");
    let (v, bits, _off) = raw_value(code, &t, &ty);
    assert!(v.padded_len() == w);
    // the padded iterator yields exactly the w bits at the value's offset
    let p = padded_of(&v, w);
    let q: usize = kani::any();
    kani::assume(q < MAXW);
    assert!(p[q] == bits[q], "iter_padded yields a bit that is not the value's bit at that position");
    match t.kind[root] {
        2 => {
            let (l, r) = (t.l[root], t.r[root]);
            let wmax = w - 1;
            assert!(v.as_product().is_none());
            if !bits[0] {
                assert!(v.as_right().is_none(), "left value answers as_right");
                let x = v.as_left().unwrap().to_value();
                assert!(x.padded_len() == t.w[l], "as_left part has the wrong width");
                let px = padded_of(&x, t.w[l]);
                let k: usize = kani::any();
                kani::assume(k < t.w[l].max(1));
                if t.w[l] > 0 {
                    assert!(px[k] == bits[1 + (wmax - t.w[l]) + k], "as_left part starts at the wrong offset");
                }
                std::mem::forget(x);
            } else {
                assert!(v.as_left().is_none(), "right value answers as_left");
                let x = v.as_right().unwrap().to_value();
                assert!(x.padded_len() == t.w[r], "as_right part has the wrong width");
                let px = padded_of(&x, t.w[r]);
                let k: usize = kani::any();
                kani::assume(k < t.w[r].max(1));
                if t.w[r] > 0 {
                    assert!(px[k] == bits[1 + (wmax - t.w[r]) + k], "as_right part starts at the wrong offset");
                }
                std::mem::forget(x);
            }
        }
        3 => {
            let (l, r) = (t.l[root], t.r[root]);
            assert!(v.as_left().is_none() && v.as_right().is_none());
            let (a, b) = v.as_product().unwrap();
            let (a, b) = (a.to_value(), b.to_value());
            assert!(a.padded_len() == t.w[l] && b.padded_len() == t.w[r], "as_product parts have the wrong widths");
            let pa = padded_of(&a, t.w[l]);
            let pb = padded_of(&b, t.w[r]);
            let k: usize = kani::any();
            kani::assume(k < MAXW);
            if k < t.w[l] {
                assert!(pa[k] == bits[k], "left component starts at the wrong offset");
            }
            if k < t.w[r] {
                assert!(pb[k] == bits[t.w[l] + k], "right component starts at the wrong offset");
            }
            std::mem::forget(a);
            std::mem::forget(b);
        }
        _ => {}
    }
    kani::cover!(true, "end reached");
    std::mem::forget(v);
    std::mem::forget(ty);
}

macro_rules! acc {
    ($name:ident, $code:expr) => {
        #[kani::proof]
        #[kani::unwind(34)]
        #[kani::stub(simplicity::types::precomputed::nth_power_of_2, crate::vals::stub_nth_power_of_2)]
        #[kani::stub(simplicity::Tmr::sum, crate::hcons::stub_tmr_sum)]
        #[kani::stub(simplicity::Tmr::product, crate::hcons::stub_tmr_product)]
        #[kani::stub(std::sync::Arc::drop_slow, crate::hcons::stub_arc_drop_slow)]
        fn $name() {
            accessors_core($code)
        }
    };
}
// sums of unequal width (padding on the left and on the right), products with
// units, nested sums, a byte crossing byte boundaries at every offset
acc!(k10_acc_sum_u_b, b"ub+"); // 1 + 2
acc!(k10_acc_sum_n_b, b"nb+"); // 2^4 + 2   (right padded)
acc!(k10_acc_sum_b_y, b"by+"); // 2 + 2^8   (left padded)
acc!(k10_acc_prod_b_y, b"by*"); // 2 x 2^8
acc!(k10_acc_prod_u_c, b"uc*"); // 1 x 2^2
acc!(k10_acc_prod_sum, b"ub+n*"); // (1+2) x 2^4
acc!(k10_acc_sum_prod, b"cu*y+"); // (2^2 x 1) + 2^8
acc!(k10_acc_sum_sum, b"ub+c+"); // (1+2) + 2^2

// ------------------------------------------------------------ padded decoder
fn padded_decode_core(code: &'static [u8]) {
    let t = parse(code);
    let ty = build(code);
    let w = t.w[t.root];
    let d: [u8; 3] = kani::any();
    let mut it = BitIter::from(&d[..]);
    let v = Value::from_padded_bits(&mut it, &ty).unwrap();
    assert!(it.n_total_read() == w, "from_padded_bits consumed a wrong number of bits");
    assert!(v.padded_len() == w);
    let p = padded_of(&v, w);
    let q: usize = kani::any();
    kani::assume(q < w.max(1));
    if w > 0 {
        assert!(p[q] == bit(&d, q), "padded decode changed a bit");
    }
    std::mem::forget(v);
    std::mem::forget(ty);
}
macro_rules! pdec {
    ($name:ident, $code:expr) => {
        #[kani::proof]
        #[kani::unwind(34)]
        #[kani::stub(simplicity::types::precomputed::nth_power_of_2, crate::vals::stub_nth_power_of_2)]
        #[kani::stub(simplicity::Tmr::sum, crate::hcons::stub_tmr_sum)]
        #[kani::stub(simplicity::Tmr::product, crate::hcons::stub_tmr_product)]
        #[kani::stub(std::sync::Arc::drop_slow, crate::hcons::stub_arc_drop_slow)]
        fn $name() {
            padded_decode_core($code)
        }
    };
}
pdec!(k10_pdec_sum_b_y, b"by+"); // 9 bits: one full byte + 1
pdec!(k10_pdec_prod_yy, b"yy*"); // 16 bits: exactly two bytes
pdec!(k10_pdec_unit, b"u");

// ------------------------------------------------------------ C11: ==, cmp, hash
struct RecHasher {
    buf: [u8; 96],
    n: usize,
}
impl std::hash::Hasher for RecHasher {
    fn finish(&self) -> u64 {
        0
    }
    fn write(&mut self, bytes: &[u8]) {
        let mut i = 0;
        while i < bytes.len() {
            if self.n < 96 {
                self.buf[self.n] = bytes[i];
            }
            self.n += 1;
            i += 1;
        }
    }
}

fn hash_trace(v: &Value) -> RecHasher {
    use std::hash::Hash;
    let mut h = RecHasher { buf: [0; 96], n: 0 };
    v.hash(&mut h);
    h
}

/// Two values of the same type from independent buffers/offsets. `clean`:
/// every sum-padding bit is zero and the bits after the value up to the next
/// byte boundary (as seen from the value's own offset) are zero — the form
/// every constructor produces from clean inputs.
fn eq_core(code: &'static [u8], clean: bool) {
    let t = parse(code);
    let ty = build(code);
    let w = t.w[t.root];
    let mk = |_: u8| {
        let d: [u8; 4] = kani::any();
        let off: usize = kani::any();
        kani::assume(off <= 7 && off + w <= 24);
        let mut bits = [false; MAXW];
        let mut i = 0;
        while i < MAXW {
            if i < w {
                bits[i] = bit(&d, off + i);
            }
            i += 1;
        }
        if clean {
            let mut live = [false; MAXW];
            mark(&t, t.root, &bits, 0, &mut live);
            let mut i = 0;
            while i < MAXW {
                if i < w {
                    kani::assume(live[i] || !bits[i]);
                } else if i < (w + 7) / 8 * 8 {
                    // slack after the value inside its last raw byte
                    kani::assume(!bit(&d, off + i));
                }
                i += 1;
            }
        }
        let a: Arc<[u8]> = Arc::from(&d[..]);
        (hooks::value_from_raw_parts(a, off, Arc::clone(&ty)), bits)
    };
    let (a, ba) = mk(0);
    let (b, bb) = mk(1);
    let same = same_content(&t, &ba, &bb);
    let eq = a == b;
    assert!(eq == same, "== is not equality of the denoted elements");
    let ord = a.cmp(&b);
    assert!((ord == std::cmp::Ordering::Equal) == same, "cmp() == Equal is not equivalent to ==");
    assert!(b.cmp(&a) == ord.reverse(), "cmp is not antisymmetric");
    assert!(a.partial_cmp(&b) == Some(ord));
    if same {
        let (ha, hb) = (hash_trace(&a), hash_trace(&b));
        assert!(ha.n == hb.n, "equal values feed different amounts of data to the hasher");
        let q: usize = kani::any();
        kani::assume(q < 96 && q < ha.n);
        assert!(ha.buf[q] == hb.buf[q], "equal values hash differently");
    }
    kani::cover!(same, "equal pair");
    kani::cover!(!same, "different pair");
    std::mem::forget(a);
    std::mem::forget(b);
    std::mem::forget(ty);
}

macro_rules! eqh {
    ($name:ident, $code:expr, $clean:expr) => {
        #[kani::proof]
        #[kani::unwind(34)]
        #[kani::stub(simplicity::types::precomputed::nth_power_of_2, crate::vals::stub_nth_power_of_2)]
        #[kani::stub(simplicity::Tmr::sum, crate::hcons::stub_tmr_sum)]
        #[kani::stub(simplicity::Tmr::product, crate::hcons::stub_tmr_product)]
        #[kani::stub(std::sync::Arc::drop_slow, crate::hcons::stub_arc_drop_slow)]
        fn $name() {
            eq_core($code, $clean)
        }
    };
}
eqh!(k11_eq_clean_sum_b_y, b"by+", true);
eqh!(k11_eq_clean_prod_sum, b"ub+n*", true);
eqh!(k11_eq_clean_byte, b"y", true);
eqh!(k11_eq_clean_sum_n_b, b"nb+", true);
// the same with arbitrary bits in sum padding and after the value: the
// histories "sub-value of a larger value" and "Bit Machine output"
eqh!(k11_eq_dirty_sum_b_y, b"by+", false);
eqh!(k11_eq_dirty_bit, b"b", false);

/// Two values of a padding-free type whose width is a multiple of 8, cut out of
/// ONE shared buffer at two independent bit offsets (siblings of one parent:
/// what `as_product` + `to_value` produce). There is no slack and no padding,
/// so equality must be exactly equality of the bits.
fn eq_shared_core(code: &'static [u8]) {
    let t = parse(code);
    let ty = build(code);
    let w = t.w[t.root];
    let d: [u8; 4] = kani::any();
    let a: Arc<[u8]> = Arc::from(&d[..]);
    let oa: usize = kani::any();
    let ob: usize = kani::any();
    kani::assume(oa <= 16 && ob <= 16);
    kani::assume(oa + w <= 32 && ob + w <= 32);
    let va = hooks::value_from_raw_parts(Arc::clone(&a), oa, Arc::clone(&ty));
    let vb = hooks::value_from_raw_parts(Arc::clone(&a), ob, Arc::clone(&ty));
    let mut same = true;
    let mut i = 0;
    while i < 16 {
        if i < w && bit(&d, oa + i) != bit(&d, ob + i) {
            same = false;
        }
        i += 1;
    }
    assert!((va == vb) == same, "== of two sub-values of one buffer is not equality of their bits");
    let ord = va.cmp(&vb);
    assert!((ord == std::cmp::Ordering::Equal) == same, "cmp() == Equal is not equivalent to == for sub-values of one buffer");
    assert!(vb.cmp(&va) == ord.reverse(), "cmp is not antisymmetric");
    if same {
        let (ha, hb) = (hash_trace(&va), hash_trace(&vb));
        assert!(ha.n == hb.n, "equal values feed different amounts of data to the hasher");
        let q: usize = kani::any();
        kani::assume(q < 96 && q < ha.n);
        assert!(ha.buf[q] == hb.buf[q], "equal values hash differently");
    }
    kani::cover!(same && oa != ob, "equal siblings at different offsets");
    kani::cover!(!same && oa % 8 != ob % 8, "different siblings at different alignments");
    std::mem::forget(va);
    std::mem::forget(vb);
    std::mem::forget(a);
    std::mem::forget(ty);
}

macro_rules! eqs {
    ($name:ident, $code:expr) => {
        #[kani::proof]
        #[kani::unwind(34)]
        #[kani::stub(simplicity::types::precomputed::nth_power_of_2, crate::vals::stub_nth_power_of_2)]
        #[kani::stub(simplicity::Tmr::sum, crate::hcons::stub_tmr_sum)]
        #[kani::stub(simplicity::Tmr::product, crate::hcons::stub_tmr_product)]
        #[kani::stub(std::sync::Arc::drop_slow, crate::hcons::stub_arc_drop_slow)]
        fn $name() {
            eq_shared_core($code)
        }
    };
}
eqs!(k11_eq_shared_byte, b"y");
eqs!(k11_eq_shared_u16, b"yy*");

/// Three clean values of one type from independent buffers/offsets: `==` and
/// the ordering are transitive (with antisymmetry and totality from the pair
/// harnesses this makes `cmp` a total order consistent with `==`).
fn trans_core(code: &'static [u8]) {
    let t = parse(code);
    let ty = build(code);
    let w = t.w[t.root];
    let mk = |_: u8| {
        let d: [u8; 4] = kani::any();
        let off: usize = kani::any();
        kani::assume(off <= 7 && off + w <= 24);
        let mut bits = [false; MAXW];
        let mut i = 0;
        while i < MAXW {
            if i < w {
                bits[i] = bit(&d, off + i);
            }
            i += 1;
        }
        let mut live = [false; MAXW];
        mark(&t, t.root, &bits, 0, &mut live);
        let mut i = 0;
        while i < MAXW {
            if i < w {
                kani::assume(live[i] || !bits[i]);
            } else if i < (w + 7) / 8 * 8 {
                kani::assume(!bit(&d, off + i));
            }
            i += 1;
        }
        let a: Arc<[u8]> = Arc::from(&d[..]);
        hooks::value_from_raw_parts(a, off, Arc::clone(&ty))
    };
    let (a, b, c) = (mk(0), mk(1), mk(2));
    use std::cmp::Ordering::*;
    let (ab, bc, ac) = (a.cmp(&b), b.cmp(&c), a.cmp(&c));
    if ab != Greater && bc != Greater {
        assert!(ac != Greater, "cmp is not transitive");
    }
    if ab == Less && bc != Greater || ab != Greater && bc == Less {
        assert!(ac == Less, "cmp is not transitive (strict)");
    }
    if a == b && b == c {
        assert!(a == c, "== is not transitive");
    }
    kani::cover!(ab == Less && bc == Less, "strictly increasing triple");
    kani::cover!(ab == Equal && bc == Less, "equal then less");
    std::mem::forget(a);
    std::mem::forget(b);
    std::mem::forget(c);
    std::mem::forget(ty);
}

macro_rules! trh {
    ($name:ident, $code:expr) => {
        #[kani::proof]
        #[kani::unwind(34)]
        #[kani::stub(simplicity::types::precomputed::nth_power_of_2, crate::vals::stub_nth_power_of_2)]
        #[kani::stub(simplicity::Tmr::sum, crate::hcons::stub_tmr_sum)]
        #[kani::stub(simplicity::Tmr::product, crate::hcons::stub_tmr_product)]
        #[kani::stub(std::sync::Arc::drop_slow, crate::hcons::stub_arc_drop_slow)]
        fn $name() {
            trans_core($code)
        }
    };
}
trh!(k11_trans_clean_sum_b_y, b"by+");
trh!(k11_trans_clean_prod_sum, b"ub+n*");
