#!/usr/bin/env python3-vt
"""vcheck.py <property> [--tier quick|thorough] [--jobs N] [--only <regex>]

Decides one property of /verif/properties.jsonl by solver-based checking of
/repo's current working tree (see DESIGN.md). Exit codes:
  0  property held on everything explored (core harnesses conclusive)
  1  reproduced violation: prints `VIOLATION property=<id> replay=<path>`
  2  inconclusive / tooling problem (never counted as a pass)
"""
import argparse
import json
import os
import re
import sys
import time

sys.path.insert(0, os.path.dirname(os.path.abspath(__file__)))
from vlib import kani, registry  # noqa: E402

VERIF = os.path.dirname(os.path.abspath(__file__))


def load_known():
    p = os.path.join(VERIF, "known_findings.json")
    if not os.path.exists(p):
        return []
    return json.load(open(p)).get("findings", [])


def match_known(prop, harness, fail_item, known):
    for k in known:
        if k.get("status") != "open" or k["property"] != prop:
            continue
        if not re.search(k["harness"], harness):
            continue
        if re.search(k["check"], fail_item["description"]):
            return k
    return None


def main():
    ap = argparse.ArgumentParser()
    ap.add_argument("prop")
    ap.add_argument("--tier", default=os.environ.get("VERIF_TIER", "quick"), choices=["quick", "thorough"])
    ap.add_argument("--jobs", type=int, default=int(os.environ.get("VERIF_JOBS", "8")))
    ap.add_argument("--only", default=None)
    ap.add_argument("--no-replay", action="store_true")
    ap.add_argument("--replay", default=None)
    a = ap.parse_args()
    seed = int(os.environ.get("VERIF_SEED", "0"))
    t0 = time.time()
    prop = a.prop
    spec = registry.PROPS.get(prop)
    if spec is None:
        print("unknown or not-applicable property %s" % prop)
        return 2
    if a.replay:
        if a.replay.endswith(".json"):
            from vlib import mircheck
            return mircheck.replay_file(a.replay)
        return kani.replay_file(a.replay)
    if spec.get("engine") == "mir":
        from vlib import mircheck
        return mircheck.run(prop, spec, a.tier, seed)

    hs = [h for h in spec["harnesses"] if a.tier in h.tiers]
    if a.only:
        hs = [h for h in hs if re.search(a.only, h.name)]
    # VERIF_SEED only permutes scheduling order (no random choice decides anything)
    if seed:
        import random
        random.Random(seed).shuffle(hs)
    os.makedirs(os.path.join(VERIF, "evidence"), exist_ok=True)
    os.makedirs(kani.WORK, exist_ok=True)
    kani.lock_work()
    print("[%s] tier=%s harnesses=%d jobs=%d" % (prop, a.tier, len(hs), a.jobs), flush=True)
    try:
        found, build_s = kani.codegen(spec["filters"], log=os.path.join(kani.WORK, "codegen.%s.log" % prop))
    except RuntimeError as e:
        print(str(e))
        print("[%s] INCONCLUSIVE: the harness crate does not build against /repo's working tree" % prop)
        write_evidence(prop, spec, a.tier, seed, [], time.time() - t0, note="codegen failed")
        return 2
    print("[%s] codegen %.1fs, %d harness binaries" % (prop, build_s, len(found)), flush=True)

    def progress(r):
        extra = ""
        if r.get("verdict") == "failed":
            extra = " :: " + "; ".join("%s @%s" % (f["description"], f["where"]) for f in r["failed"][:3])
        elif r.get("verdict") in ("vacuous",):
            extra = " :: unsatisfied covers: %s" % r.get("covers_unsat")
        elif r.get("verdict") in ("error",):
            extra = " :: %s" % str(r.get("detail"))[:300]
        elif r.get("verdict") in ("unwind_too_small",):
            extra = " :: %s" % "; ".join("%s" % (f["property"]) for f in r["unwind_failed"][:3])
        print("  %-40s %-16s %7.1fs checks=%s vars=%s%s" % (
            r["harness"], r.get("verdict"), r.get("wall_s", 0), r.get("checks"), r.get("vars"), extra), flush=True)

    results = kani.run_harnesses(hs, found, jobs=a.jobs, progress=progress)
    byname = {h.name: h for h in hs}
    known = load_known()
    violations, known_hits, inconclusive_core, inconclusive_opt = [], [], [], []
    for r in results:
        v = r["verdict"]
        if v == "ok":
            continue
        if v == "failed":
            unknown = []
            for f in r["failed"]:
                k = match_known(prop, r["harness"], f, known)
                if k:
                    known_hits.append((k, r["harness"], f))
                else:
                    unknown.append(f)
            if unknown:
                violations.append((r, unknown))
        else:
            (inconclusive_core if r.get("core", True) else inconclusive_opt).append(r)

    exit_code = 0
    replays = []
    for (r, unknown) in violations:
        h = byname[r["harness"]]
        desc = "; ".join("%s @%s" % (f["description"], f["where"]) for f in unknown[:3])
        if a.no_replay:
            print("UNREPLAYED-FAILURE property=%s harness=%s %s" % (prop, r["harness"], desc))
            exit_code = max(exit_code, 2)
            continue
        labels = ",".join("%s" % l for l in _labels_from_report(r))
        pb = kani.playback(h, found[h.name], labels, kani.replays_dir(prop))
        r["playback"] = {k: pb[k] for k in ("reproduced_dev", "reproduced_release", "test_path")}
        logp = os.path.join(kani.replays_dir(prop), "%s.log" % h.name)
        os.makedirs(os.path.dirname(logp), exist_ok=True)
        with open(logp, "w") as f:
            f.write(pb["log"])
        if pb["reproduced_dev"] or pb["reproduced_release"]:
            print("VIOLATION property=%s replay=%s" % (prop, pb["test_path"]))
            print("  harness=%s dev=%s release=%s :: %s" % (h.name, pb["reproduced_dev"], pb["reproduced_release"], desc))
            replays.append(pb["test_path"])
            exit_code = 1
        else:
            print("NON-REPRODUCING counterexample property=%s harness=%s :: %s (log: %s)" % (prop, h.name, desc, logp))
            if exit_code == 0:
                exit_code = 2
    seen = set()
    for (k, hn, f) in known_hits:
        if k["id"] not in seen:
            seen.add(k["id"])
            print("KNOWN-FINDING: property=%s %s [%s]" % (prop, k["what"], k["id"]))
    for r in inconclusive_core:
        print("INCONCLUSIVE core harness %s: %s" % (r["harness"], r["verdict"]))
        if exit_code == 0:
            exit_code = 2
    for r in inconclusive_opt:
        print("not explored (optional harness) %s: %s" % (r["harness"], r["verdict"]))
    extra = None
    if prop == "C05" and not a.only:
        # second engine of this property: one interpreter step per combinator from MIR (vlib/c05arms.py)
        from vlib import c05arms
        arc, extra, areplays = c05arms.check(lambda s: print(s, flush=True), a.tier)
        if arc == 1:
            exit_code = 1
            violations = list(violations) + [("arms", p) for p in areplays]
        elif arc == 2 and exit_code == 0:
            exit_code = 2
    write_evidence(prop, spec, a.tier, seed, results, time.time() - t0,
                   violations=len([1 for v in violations]), known=[k["id"] for (k, _, _) in known_hits],
                   build_s=build_s, extra=extra)
    ok = sum(1 for r in results if r["verdict"] == "ok")
    print("[%s] %d/%d harnesses verified, %d violation(s), %d inconclusive core, %d optional unexplored, %.0fs -> exit %d" % (
        prop, ok, len(results), len(violations), len(inconclusive_core), len(inconclusive_opt),
        time.time() - t0, exit_code))
    return exit_code


def _labels_from_report(r):
    # labels are rebuilt by function name inside playback via cbmc args; here we
    # cannot recover mangled labels from the report, so re-resolve lazily
    return r.get("_labels", [])


def evidence_dir():
    """evidence/<id>.json is rewritten by the registered commands only; experiments (another work
    directory, a scratch repository, a harness subset) write theirs next to their scratch files"""
    if os.environ.get("VERIF_WORK") or os.environ.get("VERIF_REPO") or "--only" in sys.argv:
        d = os.path.join(kani.WORK, "evidence")
    else:
        d = os.path.join(VERIF, "evidence")
    os.makedirs(d, exist_ok=True)
    return d


def write_evidence(prop, spec, tier, seed, results, wall, violations=0, known=(), build_s=0.0, note="", extra=None):
    ok = [r for r in results if r["verdict"] == "ok"]
    checks = sum((r.get("checks") or 0) for r in results)
    discharged = sum((r.get("checks") or 0) for r in ok)
    samples = []
    for r in results[:]:
        samples.append({
            "harness": r["harness"], "verdict": r["verdict"], "note": r.get("note", ""),
            "unwind": r.get("unwind"), "unwindset": r.get("unwindset"),
            "vccs": r.get("checks"), "sat_vars": r.get("vars"), "sat_clauses": r.get("clauses"),
            "solver_s": r.get("solver_s"), "cbmc_s": r.get("cbmc_s"), "sat_queries": r.get("queries"),
            "covers_satisfied": r.get("covers_sat"), "covers_unsatisfied": r.get("covers_unsat"),
            "failed_checks": r.get("failed"), "playback": r.get("playback"),
        })
    ev = {
        "property_id": prop,
        "tier": tier,
        "seed": seed,
        "level": "model_checking",
        "coverage": {
            "evaluations": max(1, len(results)),
            "distinct_nontrivial": len([r for r in ok if r.get("covers_sat")]),
            "rule": "one evaluation = one SAT query set (CBMC) over a #[kani::proof] harness with symbolic inputs; "
                    "non-trivial = verdict ok AND every kani::cover! witness of the harness satisfied (non-vacuous)",
            "samples": samples,
            "obligations": checks,
            "discharged": discharged,
            "checker_cmd": "cargo kani --only-codegen (Kani 0.68.0) + goto-instrument + cbmc 6.11.0 " + " ".join(kani.CBMC_FLAGS),
            "functions_encoded": spec.get("functions", []),
            "bounds": spec.get("bounds", ""),
            "outside_claim": spec.get("outside", ""),
            "solver_time_s": round(sum((r.get("solver_s") or 0) for r in results), 2),
            "cbmc_time_s": round(sum((r.get("cbmc_s") or 0) for r in results), 2),
            "codegen_s": round(build_s, 1),
            "harnesses_ok": len(ok),
            "harnesses_total": len(results),
            "inconclusive": [{"harness": r["harness"], "verdict": r["verdict"], "core": r.get("core", True)}
                             for r in results if r["verdict"] not in ("ok", "failed")],
            "known_findings_hit": sorted(set(known)),
            "exhaustive": False,
            "note": note,
        },
        "assumptions": spec.get("assumptions", []) + registry.STANDING_ASSUMPTIONS,
        "wall_s": round(wall, 1),
        "violations": violations,
    }
    if extra:
        ev["coverage"]["interpreter_arms"] = extra
        ev["coverage"]["evaluations"] += len(extra.get("queries", []))
        ev["coverage"]["obligations"] += len(extra.get("queries", []))
        ev["coverage"]["discharged"] += len([q for q in extra.get("queries", []) if q.get("verdict") == "holds"])
        ev["coverage"]["solver_time_s"] = round(ev["coverage"]["solver_time_s"] + extra.get("solver_time_s", 0), 2)
        if extra.get("unexplored"):
            ev["coverage"]["unexplored"] = extra["unexplored"]
    with open(os.path.join(evidence_dir(), "%s.json" % prop), "w") as f:
        json.dump(ev, f, indent=1)


if __name__ == "__main__":
    try:
        rc = main()
    except SystemExit:
        raise
    except BaseException as e:  # a crash of the machinery is inconclusive, never a verdict
        import traceback
        traceback.print_exc()
        print("INCONCLUSIVE: internal error in the checker: %r" % (e,))
        rc = 2
    sys.exit(rc)
