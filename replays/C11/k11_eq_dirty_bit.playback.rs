// Kani concrete playback for harness k11_eq_dirty_bit (module c10k.rs)
// replay: vcheck.py --replay /verif/replays/C11/k11_eq_dirty_bit.playback.rs
#[test]
fn kani_concrete_playback_k11_eq_dirty_bit_13978160033489542705() {
    let concrete_vals: Vec<Vec<u8>> = vec![
        // 192
        vec![192],
        // 255
        vec![255],
        // 255
        vec![255],
        // 255
        vec![255],
        // 0ul
        vec![0, 0, 0, 0, 0, 0, 0, 0],
        // 231
        vec![231],
        // 255
        vec![255],
        // 255
        vec![255],
        // 255
        vec![255],
        // 0ul
        vec![0, 0, 0, 0, 0, 0, 0, 0],
    ];
    kani::concrete_playback_run(concrete_vals, k11_eq_dirty_bit);
}