#!/bin/bash
# benign_run.sh <outdir-with-*.patch.diff> : copy each behaviour-preserving patch to /verif/benign/<id>/ and run
# the registered quick check of its property on a scratch worktree with the patch applied (expected: exit 0)
set -u
src=$1; shift
for f in "$src"/*.patch.diff; do
  id=$(basename "$f" .patch.diff); prop=${id%%-*}
  mkdir -p /verif/benign/$id
  cp "$f" /verif/benign/$id/patch.diff
  [ -f "$src/$id.why.txt" ] && cp "$src/$id.why.txt" /verif/benign/$id/why.txt
  python3 /verif/seedtool.py runcopy $id $prop > /verif/benign/$id/run.log 2>&1
  echo "$id: $(tail -1 /verif/benign/$id/run.log)"
done
