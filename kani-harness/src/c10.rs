//! C10 — value encodings, accessors and pruning follow the type's bit layout.
//! One harness per (type shape, production history); data is symbolic.
use crate::vals::*;
use simplicity::types::Final;
use simplicity::{BitCollector, BitIter, Value};
use std::sync::Arc;

pub fn hashcons_on() {
    unsafe {
        hashes::sha256::kani_hashcons::MODE = 1;
    }
}

fn shift(bits: &[bool; MAXW], off: usize, w: usize) -> [bool; MAXW] {
    let mut o = [false; MAXW];
    let mut i = 0;
    while i < w {
        o[i] = bits[off + i];
        i += 1;
    }
    o
}

pub fn c10_core(code: &'static [u8], h: Hist) {
    hashcons_on();
    let t = parse(code);
    let ty = build(code);
    assert!(ty.bit_width() == t.w[t.root], "Final::bit_width differs from the definition");
    let np = n_paths(&t, t.root);
    let mut sel = 0;
    while sel < np {
        c10_one(&t, &ty, sel, h);
        sel += 1;
    }
    kani::cover!(true, "end reached");
    std::mem::forget(ty);
}

fn c10_one(t: &TyTab, ty: &Arc<Final>, sel: usize, h: Hist) {
    let t = *t;
    let root = t.root;
    let w = t.w[root];
    let mut bits = any_bits(w);
    fix_tags(&t, root, &mut bits, 0, sel);
    let v = produce(&t, ty, &bits, h);

    // --- encodings
    assert!(v.is_of_type(ty), "value lost its type");
    assert!(v.padded_len() == w);
    let p = padded_of(&v, w);
    assert!(same_content(&t, &p, &bits), "padded encoding denotes a different element");
    let (c, n) = compact_of(&t, &bits);
    assert!(ty.has_padding() || n == w, "has_padding false but compact shorter than padded");
    assert!(v.compact_len() == n, "compact length is not padded length minus padding");
    {
        let mut it = v.iter_compact();
        let mut i = 0;
        while i < MAXW {
            match it.next() {
                Some(b) => {
                    assert!(i < n && b == c[i], "compact encoding is not the padded one with padding removed");
                }
                None => {
                    assert!(i == n, "compact encoding too short");
                    break;
                }
            }
            i += 1;
        }
        std::mem::forget(it);
    }
    // decode(encode) through the real collectors
    {
        let (bytes, nb) = v.iter_compact().collect_bits();
        assert!(nb == n);
        let mut it = BitIter::from(&bytes[..]);
        let v2 = Value::from_compact_bits(&mut it, ty).unwrap();
        assert!(it.n_total_read() == n, "compact decode consumed a different number of bits than produced");
        assert!(v2.is_of_type(ty));
        let p2 = padded_of(&v2, w);
        assert!(same_content(&t, &p2, &bits), "compact round-trip changed the value");
        std::mem::forget(v2);
        std::mem::forget(bytes);
    }
    {
        let (bytes, nb) = v.iter_padded().collect_bits();
        assert!(nb == w);
        let mut it = BitIter::from(&bytes[..]);
        let v3 = Value::from_padded_bits(&mut it, ty).unwrap();
        assert!(it.n_total_read() == w, "padded decode consumed a different number of bits than produced");
        let p3 = padded_of(&v3, w);
        assert!(same_content(&t, &p3, &bits), "padded round-trip changed the value");
        std::mem::forget(v3);
        std::mem::forget(bytes);
    }

    // --- accessors / constructors at the root
    match t.kind[root] {
        2 => {
            let (lt, rt) = ty.as_sum().unwrap();
            let (l, r) = (t.l[root], t.r[root]);
            let wmax = w - 1;
            assert!(v.as_product().is_none());
            if !bits[0] {
                assert!(v.as_right().is_none(), "left value answers as_right");
                let x = v.as_left().unwrap().to_value();
                assert!(x.is_of_type(lt), "as_left part has the wrong type");
                let mut tl = t;
                tl.root = l;
                let want = shift(&bits, 1 + (wmax - t.w[l]), t.w[l]);
                let px = padded_of(&x, t.w[l]);
                assert!(same_content(&tl, &px, &want), "as_left part differs from what the value holds");
                let back = Value::left(x, Arc::clone(rt));
                assert!(back.is_of_type(ty), "Value::left built a different type");
                let pb = padded_of(&back, w);
                assert!(same_content(&t, &pb, &bits), "left(as_left(v)) differs from v");
                kani::cover!(true, "left branch");
                std::mem::forget(back);
            } else {
                assert!(v.as_left().is_none(), "right value answers as_left");
                let x = v.as_right().unwrap().to_value();
                assert!(x.is_of_type(rt), "as_right part has the wrong type");
                let mut tr = t;
                tr.root = r;
                let want = shift(&bits, 1 + (wmax - t.w[r]), t.w[r]);
                let px = padded_of(&x, t.w[r]);
                assert!(same_content(&tr, &px, &want), "as_right part differs from what the value holds");
                let back = Value::right(Arc::clone(lt), x);
                assert!(back.is_of_type(ty), "Value::right built a different type");
                let pb = padded_of(&back, w);
                assert!(same_content(&t, &pb, &bits), "right(as_right(v)) differs from v");
                kani::cover!(true, "right branch");
                std::mem::forget(back);
            }
        }
        3 => {
            let (lt, rt) = ty.as_product().unwrap();
            let (l, r) = (t.l[root], t.r[root]);
            assert!(v.as_left().is_none() && v.as_right().is_none());
            let (a, b) = v.as_product().unwrap();
            let (a, b) = (a.to_value(), b.to_value());
            assert!(a.is_of_type(lt) && b.is_of_type(rt), "as_product parts have the wrong types");
            let mut tl = t;
            tl.root = l;
            let mut tr = t;
            tr.root = r;
            let pa = padded_of(&a, t.w[l]);
            let pb = padded_of(&b, t.w[r]);
            assert!(same_content(&tl, &pa, &shift(&bits, 0, t.w[l])), "left component differs");
            assert!(same_content(&tr, &pb, &shift(&bits, t.w[l], t.w[r])), "right component differs");
            let back = Value::product(a, b);
            assert!(back.is_of_type(ty), "Value::product built a different type");
            let pk = padded_of(&back, w);
            assert!(same_content(&t, &pk, &bits), "product(as_product(v)) differs from v");
            kani::cover!(true, "product");
            std::mem::forget(back);
        }
        0 => {
            assert!(v.as_left().is_none() && v.as_right().is_none() && v.as_product().is_none());
            assert!(v.is_unit() && v.is_empty());
        }
        _ => {}
    }
    std::mem::forget(v);
}

macro_rules! c10 {
    ($name:ident, $code:expr, $hist:expr) => {
        #[kani::proof]
        #[kani::unwind(34)]
        #[kani::stub(simplicity::types::precomputed::nth_power_of_2, crate::vals::stub_nth_power_of_2)]
        fn $name() {
            c10_core($code, $hist)
        }
    };
}

c10!(k10_probe_1pb_dec, b"ub+", Hist::DecPadded);

// ---- micro probes (not registered)
#[kani::proof]
#[kani::unwind(8)]
#[kani::stub(simplicity::types::precomputed::nth_power_of_2, crate::vals::stub_nth_power_of_2)]
fn kprobe_compact_len() {
    hashcons_on();
    let t = parse(b"ub+");
    let ty = build(b"ub+");
    let mut bits = any_bits(2);
    fix_tags(&t, t.root, &mut bits, 0, 1);
    let v = produce(&t, &ty, &bits, Hist::DecPadded);
    let n = v.compact_len();
    assert!(n == 2);
    std::mem::forget(v);
    std::mem::forget(ty);
}

#[kani::proof]
#[kani::unwind(8)]
#[kani::stub(simplicity::types::precomputed::nth_power_of_2, crate::vals::stub_nth_power_of_2)]
fn kprobe_produce_only() {
    hashcons_on();
    let t = parse(b"ub+");
    let ty = build(b"ub+");
    let mut bits = any_bits(2);
    fix_tags(&t, t.root, &mut bits, 0, 1);
    let v = produce(&t, &ty, &bits, Hist::DecPadded);
    assert!(v.padded_len() == 2);
    std::mem::forget(v);
    std::mem::forget(ty);
}

#[kani::proof]
#[kani::unwind(8)]
#[kani::stub(simplicity::types::precomputed::nth_power_of_2, crate::vals::stub_nth_power_of_2)]
#[kani::stub(std::vec::Vec::push, crate::hcons::stub_vec_push)]
fn kprobe_compact_len_pushstub() {
    hashcons_on();
    let t = parse(b"ub+");
    let ty = build(b"ub+");
    let mut bits = any_bits(2);
    fix_tags(&t, t.root, &mut bits, 0, 1);
    let v = produce(&t, &ty, &bits, Hist::DecPadded);
    let n = v.compact_len();
    assert!(n == 2);
    std::mem::forget(v);
    std::mem::forget(ty);
}

#[kani::proof]
#[kani::unwind(8)]
#[kani::stub(simplicity::types::precomputed::nth_power_of_2, crate::vals::stub_nth_power_of_2)]
fn kprobe_build_only() {
    hashcons_on();
    let ty = build(b"ub+");
    assert!(ty.bit_width() == 2);
    std::mem::forget(ty);
}

#[kani::proof]
#[kani::unwind(8)]
#[kani::stub(simplicity::types::precomputed::nth_power_of_2, crate::vals::stub_nth_power_of_2)]
fn kprobe_build_only_realsha() {
    let ty = build(b"ub+");
    assert!(ty.bit_width() == 2);
    std::mem::forget(ty);
}

#[kani::proof]
#[kani::unwind(8)]
#[kani::stub(simplicity::types::precomputed::nth_power_of_2, crate::vals::stub_nth_power_of_2)]
#[kani::stub(simplicity::Tmr::sum, crate::hcons::stub_tmr_sum)]
#[kani::stub(simplicity::Tmr::product, crate::hcons::stub_tmr_product)]
fn kprobe_build_only_tmrstub() {
    let ty = build(b"ub+");
    assert!(ty.bit_width() == 2);
    std::mem::forget(ty);
}

#[kani::proof]
#[kani::unwind(8)]
#[kani::stub(simplicity::types::precomputed::nth_power_of_2, crate::vals::stub_nth_power_of_2)]
#[kani::stub(simplicity::Tmr::sum, crate::hcons::stub_tmr_sum)]
#[kani::stub(simplicity::Tmr::product, crate::hcons::stub_tmr_product)]
fn kprobe_produce_only_tmrstub() {
    let t = parse(b"ub+");
    let ty = build(b"ub+");
    let mut bits = any_bits(2);
    fix_tags(&t, t.root, &mut bits, 0, 1);
    let v = produce(&t, &ty, &bits, Hist::DecPadded);
    assert!(v.padded_len() == 2);
    std::mem::forget(v);
    std::mem::forget(ty);
}

#[kani::proof]
#[kani::unwind(8)]
#[kani::stub(simplicity::types::precomputed::nth_power_of_2, crate::vals::stub_nth_power_of_2)]
#[kani::stub(simplicity::Tmr::sum, crate::hcons::stub_tmr_sum)]
#[kani::stub(simplicity::Tmr::product, crate::hcons::stub_tmr_product)]
fn kprobe_compact_len_tmrstub() {
    let t = parse(b"ub+");
    let ty = build(b"ub+");
    let mut bits = any_bits(2);
    fix_tags(&t, t.root, &mut bits, 0, 1);
    let v = produce(&t, &ty, &bits, Hist::DecPadded);
    let n = v.compact_len();
    assert!(n == 2);
    std::mem::forget(v);
    std::mem::forget(ty);
}

#[kani::proof]
#[kani::unwind(8)]
#[kani::stub(simplicity::types::precomputed::nth_power_of_2, crate::vals::stub_nth_power_of_2)]
#[kani::stub(simplicity::Tmr::sum, crate::hcons::stub_tmr_sum)]
#[kani::stub(simplicity::Tmr::product, crate::hcons::stub_tmr_product)]
#[kani::stub(std::vec::Vec::push, crate::hcons::stub_vec_push)]
fn kprobe_compact_len_tmrstub_push() {
    let t = parse(b"ub+");
    let ty = build(b"ub+");
    let mut bits = any_bits(2);
    fix_tags(&t, t.root, &mut bits, 0, 1);
    let v = produce(&t, &ty, &bits, Hist::DecPadded);
    let n = v.compact_len();
    assert!(n == 2);
    std::mem::forget(v);
    std::mem::forget(ty);
}
