// Kani concrete playback for harness k10_product_kernel_3_5 (module c10k.rs)
// replay: vcheck.py --replay /verif/replays/C10/k10_product_kernel_3_5.playback.rs
#[test]
fn kani_concrete_playback_k10_product_kernel_3_5_2794149865996644403() {
    let concrete_vals: Vec<Vec<u8>> = vec![
        // 187
        vec![187],
        // 187
        vec![187],
        // 63
        vec![63],
        // 63
        vec![63],
        // 0ul
        vec![0, 0, 0, 0, 0, 0, 0, 0],
        // 0ul
        vec![0, 0, 0, 0, 0, 0, 0, 0],
        // 1
        vec![1],
        // 1
        vec![1],
        // 3ul
        vec![3, 0, 0, 0, 0, 0, 0, 0],
    ];
    kani::concrete_playback_run(concrete_vals, k10_product_kernel_3_5);
}