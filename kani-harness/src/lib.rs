//! Kani proof harnesses over the real code of /repo (rust-simplicity).
//! See /verif/DESIGN.md. Everything deciding a property is `#[cfg(kani)]`.
#![allow(dead_code, unused_imports, clippy::all)]
#![cfg_attr(kani, feature(allocator_api))]
#![recursion_limit = "512"]

pub mod sink;
#[cfg(kani)]
mod c13;
#[cfg(kani)]
pub mod hcons;
#[cfg(kani)]
pub mod vals;
#[cfg(kani)]
mod c10k;
#[cfg(kani)]
mod c05k;
#[cfg(kani)]
mod c01;
#[cfg(kani)]
mod c18;
