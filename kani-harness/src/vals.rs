//! Shared machinery for the value family (C10, C11): concrete type shapes,
//! symbolic data, an independent bit-array oracle (DESIGN.md §C10).
//!
//! Type codes are postfix strings over
//!   'u' unit, 'b' 2 (one bit), 'c' 2^2, 'n' 2^4, 'y' 2^8, '+' sum, '*' product.
use simplicity::types::Final;
use simplicity::Value;
use std::sync::Arc;

pub const MAXN: usize = 24; // nodes in the oracle's type table
pub const MAXW: usize = 32; // padded width in bits handled by the oracle (plus slack)

#[derive(Clone, Copy)]
pub struct TyTab {
    /// 0 unit, 1 word leaf (width in `w`), 2 sum, 3 product
    pub kind: [u8; MAXN],
    pub l: [usize; MAXN],
    pub r: [usize; MAXN],
    pub w: [usize; MAXN],
    pub n: usize,
    pub root: usize,
}

/// Parse a postfix type code into the oracle's table. Independent of the code
/// under test: widths follow the definition (sum = 1 + max, product = sum).
pub fn parse(code: &[u8]) -> TyTab {
    let mut t = TyTab { kind: [0; MAXN], l: [0; MAXN], r: [0; MAXN], w: [0; MAXN], n: 0, root: 0 };
    let mut stack = [0usize; 12];
    let mut sp = 0;
    let mut i = 0;
    while i < code.len() {
        let c = code[i];
        let k = t.n;
        match c {
            b'u' => {
                t.kind[k] = 0;
                t.w[k] = 0;
            }
            b'b' | b'c' | b'n' | b'y' => {
                t.kind[k] = 1;
                t.w[k] = match c {
                    b'b' => 1,
                    b'c' => 2,
                    b'n' => 4,
                    _ => 8,
                };
            }
            b'+' | b'*' => {
                let r = stack[sp - 1];
                let l = stack[sp - 2];
                sp -= 2;
                t.l[k] = l;
                t.r[k] = r;
                if c == b'+' {
                    t.kind[k] = 2;
                    t.w[k] = 1 + if t.w[l] > t.w[r] { t.w[l] } else { t.w[r] };
                } else {
                    t.kind[k] = 3;
                    t.w[k] = t.w[l] + t.w[r];
                }
            }
            _ => panic!("bad type code"),
        }
        stack[sp] = k;
        sp += 1;
        t.n += 1;
        i += 1;
    }
    assert!(sp == 1);
    t.root = stack[0];
    t
}

fn word_ty(bits: usize) -> Arc<Final> {
    let one = Final::unit();
    let mut p = Final::sum(Arc::clone(&one), one);
    let mut w = 1;
    while w < bits {
        p = Final::product(Arc::clone(&p), Arc::clone(&p));
        w *= 2;
    }
    p
}

/// Replacement for `types::precomputed::nth_power_of_2` (thread-local cache
/// makes Kani ICE): same types, built with the real `Final::sum/product`.
pub fn stub_nth_power_of_2(n: usize) -> Arc<Final> {
    word_ty(1usize << n)
}

/// Build the real `Final` for a type code with the real constructors.
pub fn build(code: &[u8]) -> Arc<Final> {
    let mut stack: [Option<Arc<Final>>; 12] = Default::default();
    let mut sp = 0;
    let mut i = 0;
    while i < code.len() {
        let c = code[i];
        let v = match c {
            b'u' => Final::unit(),
            b'b' => word_ty(1),
            b'c' => word_ty(2),
            b'n' => word_ty(4),
            b'y' => word_ty(8),
            b'+' | b'*' => {
                let r = stack[sp - 1].take().unwrap();
                let l = stack[sp - 2].take().unwrap();
                sp -= 2;
                if c == b'+' {
                    Final::sum(l, r)
                } else {
                    Final::product(l, r)
                }
            }
            _ => panic!("bad type code"),
        };
        stack[sp] = Some(v);
        sp += 1;
        i += 1;
    }
    let r = stack[0].take().unwrap();
    std::mem::forget(stack);
    r
}

/// Oracle: which positions of the padded encoding `bits[off..]` of type `node`
/// carry information (sum tags and leaf bits) — everything else is padding.
pub fn mark(t: &TyTab, node: usize, bits: &[bool; MAXW], off: usize, live: &mut [bool; MAXW]) {
    match t.kind[node] {
        0 => {}
        1 => {
            let mut i = 0;
            while i < t.w[node] {
                live[off + i] = true;
                i += 1;
            }
        }
        2 => {
            live[off] = true;
            let (l, r) = (t.l[node], t.r[node]);
            let w = t.w[node] - 1;
            if !bits[off] {
                mark(t, l, bits, off + 1 + (w - t.w[l]), live);
            } else {
                mark(t, r, bits, off + 1 + (w - t.w[r]), live);
            }
        }
        _ => {
            let (l, r) = (t.l[node], t.r[node]);
            mark(t, l, bits, off, live);
            mark(t, r, bits, off + t.w[l], live);
        }
    }
}

/// Oracle: the compact encoding = live bits in order. Returns (bits, len).
pub fn compact_of(t: &TyTab, bits: &[bool; MAXW]) -> ([bool; MAXW], usize) {
    let mut live = [false; MAXW];
    mark(t, t.root, bits, 0, &mut live);
    let mut out = [false; MAXW];
    let mut n = 0;
    let mut i = 0;
    while i < t.w[t.root] {
        if live[i] {
            out[n] = bits[i];
            n += 1;
        }
        i += 1;
    }
    (out, n)
}

/// Oracle: two padded strings denote the same element of the type.
pub fn same_content(t: &TyTab, a: &[bool; MAXW], b: &[bool; MAXW]) -> bool {
    let (ca, na) = compact_of(t, a);
    let (cb, nb) = compact_of(t, b);
    if na != nb {
        return false;
    }
    let mut eq = true;
    let mut i = 0;
    while i < MAXW {
        if i < na && ca[i] != cb[i] {
            eq = false;
        }
        i += 1;
    }
    eq
}

/// Number of tag paths of a type: the ways its (non-leaf) sum tags can be
/// chosen from the root down. Word leaves count as one path.
pub fn n_paths(t: &TyTab, node: usize) -> usize {
    match t.kind[node] {
        2 => n_paths(t, t.l[node]) + n_paths(t, t.r[node]),
        3 => n_paths(t, t.l[node]) * n_paths(t, t.r[node]),
        _ => 1,
    }
}

/// Fix the tags of the non-leaf sums along tag path number `sel` (concrete);
/// every other bit of `bits` (leaf data, padding) stays as it is (symbolic).
/// CBMC cut (DESIGN 1.5): with symbolic tags the Vec worklists of the code
/// under test hold symbolic pointers and symbolic execution does not finish.
pub fn fix_tags(t: &TyTab, node: usize, bits: &mut [bool; MAXW], off: usize, sel: usize) {
    match t.kind[node] {
        2 => {
            let (l, r) = (t.l[node], t.r[node]);
            let w = t.w[node] - 1;
            let nl = n_paths(t, l);
            if sel < nl {
                bits[off] = false;
                fix_tags(t, l, bits, off + 1 + (w - t.w[l]), sel);
            } else {
                bits[off] = true;
                fix_tags(t, r, bits, off + 1 + (w - t.w[r]), sel - nl);
            }
        }
        3 => {
            let (l, r) = (t.l[node], t.r[node]);
            let nr = n_paths(t, r);
            fix_tags(t, l, bits, off, sel / nr);
            fix_tags(t, r, bits, off + t.w[l], sel % nr);
        }
        _ => {}
    }
}

/// Symbolic padded bits: `w` meaningful positions, the rest false.
pub fn any_bits(w: usize) -> [bool; MAXW] {
    let raw: u32 = kani::any();
    let mut b = [false; MAXW];
    let mut i = 0;
    while i < MAXW {
        if i < w {
            b[i] = (raw >> i) & 1 == 1;
        }
        i += 1;
    }
    b
}

/// Pack `nbits` bits starting at bit offset `lead` into bytes, with symbolic
/// garbage in every other bit position of the `NB`-byte buffer.
pub fn pack<const NB: usize>(bits: &[bool; MAXW], nbits: usize, lead: usize) -> [u8; NB] {
    let mut out: [u8; NB] = kani::any();
    let mut i = 0;
    while i < nbits {
        let p = lead + i;
        let mask = 1u8 << (7 - (p % 8));
        if bits[i] {
            out[p / 8] |= mask;
        } else {
            out[p / 8] &= !mask;
        }
        i += 1;
    }
    out
}

/// Read back the padded encoding of a value through the real `iter_padded`.
pub fn padded_of(v: &Value, w: usize) -> [bool; MAXW] {
    let mut out = [false; MAXW];
    let mut n = 0;
    let mut it = v.iter_padded();
    while n < MAXW {
        match it.next() {
            Some(b) => {
                out[n] = b;
                n += 1;
            }
            None => break,
        }
    }
    assert!(n == w, "padded encoding does not have the type's bit width");
    std::mem::forget(it);
    out
}

/// Histories (how a value of the given type with content `bits` is produced).
#[derive(Clone, Copy, PartialEq, Eq)]
pub enum Hist {
    /// `from_padded_bits` on a byte string whose padding/slack bits are symbolic
    DecPadded,
    /// `from_compact_bits` on the oracle's compact encoding
    DecCompact,
    /// right component of a product `2^lead x T` decoded from padded bits, taken
    /// with `as_product` + `to_value` (shared dirty buffer, bit offset `lead`)
    Sub(usize),
}

pub fn produce(t: &TyTab, ty: &Arc<Final>, bits: &[bool; MAXW], h: Hist) -> Value {
    use simplicity::BitIter;
    let w = t.w[t.root];
    match h {
        Hist::DecPadded => {
            let bytes: [u8; 5] = pack::<5>(bits, w, 0);
            let mut it = BitIter::from(&bytes[..]);
            let v = Value::from_padded_bits(&mut it, ty).unwrap();
            assert!(it.n_total_read() == w, "from_padded_bits consumed a wrong number of bits");
            v
        }
        Hist::DecCompact => {
            let (c, n) = compact_of(t, bits);
            let bytes: [u8; 5] = pack::<5>(&c, n, 0);
            let mut it = BitIter::from(&bytes[..]);
            let v = Value::from_compact_bits(&mut it, ty).unwrap();
            assert!(it.n_total_read() == n, "from_compact_bits consumed a wrong number of bits");
            v
        }
        Hist::Sub(lead) => {
            // outer type: (lead bits) x T ; the lead bits and all slack are garbage
            let mut lead_ty = word_ty(1);
            let mut k = 1;
            while k < lead {
                lead_ty = Final::product(word_ty(1), lead_ty);
                k += 1;
            }
            let outer = Final::product(lead_ty, Arc::clone(ty));
            let bytes: [u8; 5] = pack::<5>(bits, w, lead);
            let mut it = BitIter::from(&bytes[..]);
            let ov = Value::from_padded_bits(&mut it, &outer).unwrap();
            let (_, r) = ov.as_product().unwrap();
            let v = r.to_value();
            std::mem::forget(ov);
            v
        }
    }
}
