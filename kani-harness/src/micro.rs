//! micro probes of Kani/CBMC behaviour (not part of any check)
#[kani::proof]
#[kani::unwind(6)]
fn kmicro_vec_of_refs() {
    let a: u32 = kani::any();
    let b: u32 = kani::any();
    let mut v: Vec<&u32> = vec![&a];
    v.push(&b);
    v.push(&a);
    let mut s = 0u64;
    while let Some(x) = v.pop() {
        s += *x as u64;
    }
    assert!(s == 2 * a as u64 + b as u64);
}

struct R<'a> {
    x: &'a std::sync::Arc<[u8]>,
    off: usize,
}

#[kani::proof]
#[kani::unwind(6)]
fn kmicro_vec_of_arcrefs() {
    let d: [u8; 2] = kani::any();
    let a: std::sync::Arc<[u8]> = std::sync::Arc::from(&d[..]);
    let mut v: Vec<R> = vec![R { x: &a, off: 0 }];
    v.push(R { x: &a, off: 1 });
    let mut s = 0u64;
    while let Some(r) = v.pop() {
        s += r.x[r.off] as u64;
    }
    assert!(s == d[0] as u64 + d[1] as u64);
    std::mem::forget(a);
}

use simplicity::types::Final;
use simplicity::Value;

macro_rules! micro {
    ($name:ident, $body:block) => {
        #[kani::proof]
        #[kani::unwind(5)]
        #[kani::stub(simplicity::Tmr::sum, crate::hcons::stub_tmr_sum)]
        #[kani::stub(simplicity::Tmr::product, crate::hcons::stub_tmr_product)]
        #[kani::stub(std::sync::Arc::drop_slow, crate::hcons::stub_arc_drop_slow)]
        fn $name() $body
    };
}

micro!(kmicro_m1_unit, {
    let v = Value::unit();
    assert!(v.is_unit());
    std::mem::forget(v);
});
micro!(kmicro_m2_left, {
    let v = Value::left(Value::unit(), Final::unit());
    assert!(v.padded_len() == 1);
    std::mem::forget(v);
});
micro!(kmicro_m3_iter_new, {
    let v = Value::left(Value::unit(), Final::unit());
    let it = v.iter_compact();
    std::mem::forget(it);
    std::mem::forget(v);
});
micro!(kmicro_m4_iter_next, {
    let v = Value::left(Value::unit(), Final::unit());
    let mut it = v.iter_compact();
    assert!(it.next() == Some(false));
    std::mem::forget(it);
    std::mem::forget(v);
});
micro!(kmicro_m5_as_left, {
    let v = Value::left(Value::unit(), Final::unit());
    assert!(v.as_left().is_some());
    std::mem::forget(v);
});
micro!(kmicro_m6_as_left_twice, {
    let v = Value::left(Value::unit(), Final::unit());
    let l = v.as_left().unwrap();
    assert!(l.as_left().is_none());
    assert!(l.is_unit());
    std::mem::forget(v);
});
micro!(kmicro_m7_manual_stack, {
    let v = Value::left(Value::unit(), Final::unit());
    let mut stack = vec![v.as_ref()];
    let x = stack.pop().unwrap();
    let l = x.as_left().unwrap();
    stack.push(l);
    let y = stack.pop().unwrap();
    assert!(y.is_unit());
    assert!(stack.pop().is_none());
    std::mem::forget(stack);
    std::mem::forget(v);
});
micro!(kmicro_m8_raw_value, {
    // value built from raw parts: 1 symbolic byte, offset 3, type 1+1
    let d: [u8; 1] = kani::any();
    let a: std::sync::Arc<[u8]> = std::sync::Arc::from(&d[..]);
    let ty = Final::sum(Final::unit(), Final::unit());
    let v = simplicity::value_verif_hooks::value_from_raw_parts(a, 3, ty);
    let want_left = d[0] & 0x10 == 0;
    assert!(v.as_left().is_some() == want_left);
    let mut it = v.iter_compact();
    assert!(it.next() == Some(!want_left));
    assert!(it.next().is_none());
    std::mem::forget(it);
    std::mem::forget(v);
});

#[kani::proof]
#[kani::unwind(5)]
#[kani::stub(simplicity::Tmr::sum, crate::hcons::stub_tmr_sum)]
#[kani::stub(simplicity::Tmr::product, crate::hcons::stub_tmr_product)]
#[kani::stub(std::sync::Arc::drop_slow, crate::hcons::stub_arc_drop_slow)]
#[kani::stub(std::vec::Vec::push, crate::hcons::stub_vec_push)]
fn kmicro_m9_raw_value_pushstub() {
    let d: [u8; 1] = kani::any();
    let a: std::sync::Arc<[u8]> = std::sync::Arc::from(&d[..]);
    let ty = Final::sum(Final::unit(), Final::unit());
    let v = simplicity::value_verif_hooks::value_from_raw_parts(a, 3, ty);
    let want_left = d[0] & 0x10 == 0;
    let mut it = v.iter_compact();
    assert!(it.next() == Some(!want_left));
    assert!(it.next().is_none());
    std::mem::forget(it);
    std::mem::forget(v);
}
