#!/usr/bin/env python3-vt
"""showloops.py <harness> [workdir]: list loops (index, line, function) of a codegen'd harness"""
import sys, glob, json, os, tempfile
sys.path.insert(0, os.path.dirname(os.path.abspath(__file__)))
from vlib import kani
found = {}
for md in glob.glob(os.path.join(kani.TARGET, "kani", "*", "debug", "build", "vharness", "*", "out", "*.kani-metadata.json")):
    m = json.load(open(md))
    for h in m["proof_harnesses"]:
        found[h["pretty_name"].split("::")[-1]] = {"mangled": h["mangled_name"], "out": h["goto_file"].replace(".symtab.out", ".out"), "unwind": h["attributes"].get("unwind_value"), "pretty": h["pretty_name"]}
wd = tempfile.mkdtemp()
gb = kani.prepare(found[sys.argv[1]], wd)
for (label, fn, line) in kani.loops_of(gb):
    print(label.rsplit('.', 1)[1], line, fn[:150])
if len(sys.argv) > 2:
    pm = kani.load_pretty_map(found[sys.argv[1]])
    for f in kani.functions_of(gb):
        print("FN", pm.get(f, f)[:160])
