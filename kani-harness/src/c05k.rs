//! C05 at kernel level: the Bit Machine's frame micro-operations
//! (`bit_machine::frame::Frame::*` behind `BitMachine::{new_write_frame,
//! move_write_frame_to_read, drop_read_frame, write_bit, write_u8, write_bytes,
//! skip, copy, fwd, back, read_bit}`), driven through the verif-hooks on a
//! machine whose memory is symbolic and whose frames start at symbolic bit
//! offsets. The oracle is a plain bit array: bit p of the memory is
//! `data[p/8] >> (7 - p%8) & 1`, a frame is a range of positions, a cursor is
//! a position. The interpreter loop (`exec_with_tracker`) itself walks
//! `Arc`/`Vec` structures that CBMC cannot execute in reach (DESIGN.md) and is
//! outside these harnesses; the instruction *sequences* it issues for iden,
//! injl/injr, take/drop, case, comp and disconnect are replayed here with
//! symbolic widths.
use simplicity::bit_machine::verif_hooks::Mac;

const NB: usize = 5; // bytes of machine memory
const NBITS: usize = NB * 8;

fn bit(data: &[u8], p: usize) -> bool {
    (data[p / 8] >> (7 - (p % 8))) & 1 == 1
}

fn sym_mem_n<const N: usize>() -> ([u8; N], Mac) {
    let d: [u8; N] = kani::any();
    let mut v = Vec::with_capacity(N);
    let mut i = 0;
    while i < N {
        v.push(d[i]);
        i += 1;
    }
    (d, Mac::new(v, 6))
}

fn sym_mem() -> ([u8; NB], Mac) {
    sym_mem_n::<NB>()
}

/// every memory bit outside [lo, hi) still has its initial value
fn untouched_outside(d0: &[u8; NB], m: &Mac, lo: usize, hi: usize) {
    let q: usize = kani::any();
    kani::assume(q < NBITS);
    if q < lo || q >= hi {
        assert!(bit(m.data(), q) == bit(d0, q), "a bit outside the active write frame's written range changed");
    }
}

// ---------------------------------------------------------------- write side
/// A write frame at a symbolic offset; four operations of symbolic kind
/// (write_bit / skip / write_u8) that stay inside it: every position holds
/// what the reference bit array holds, nothing outside the frame changes, and
/// reading the frame back (after move_write_frame_to_read) with read_bit / fwd
/// / back / peek returns the reference bits.
#[kani::proof]
#[kani::unwind(10)]
fn k05_write_then_read() {
    let (d0, mut m) = sym_mem();
    let lead: usize = kani::any();
    let n: usize = kani::any();
    kani::assume(lead <= 9 && n >= 1 && n <= 20);
    m.new_write_frame(lead); // unconditionally (a zero-length frame when lead = 0): the stack depths stay concrete
    m.new_write_frame(n);
    assert!(m.next_frame_start() == lead + n);
    assert!(m.active_write_bit_width() == n);
    // reference: initial memory, overwritten where written
    let mut model: [bool; NBITS] = [false; NBITS];
    let mut i = 0;
    while i < NBITS {
        model[i] = bit(&d0, i);
        i += 1;
    }
    let mut c = lead; // write cursor
    let mut k = 0;
    while k < 4 {
        let kind: u8 = kani::any();
        kani::assume(kind < 3);
        if kind == 0 {
            if c + 1 <= lead + n {
                let b: bool = kani::any();
                m.write_bit(b);
                model[c] = b;
                c += 1;
            }
        } else if kind == 1 {
            let s: usize = kani::any();
            kani::assume(s <= 9);
            if c + s <= lead + n {
                m.skip(s);
                c += s;
            }
        } else if c + 8 <= lead + n {
            let v: u8 = kani::any();
            m.write_u8(v);
            let mut j = 0;
            while j < 8 {
                model[c + j] = (v >> (7 - j)) & 1 == 1;
                j += 1;
            }
            c += 8;
        }
        k += 1;
    }
    let q: usize = kani::any();
    kani::assume(q < NBITS);
    assert!(bit(m.data(), q) == model[q], "memory differs from the reference after writes");
    kani::cover!(c == lead + n && lead % 8 == 5 && n == 17, "frame filled exactly, unaligned");
    kani::cover!(c > lead + 9, "more than nine bits written or skipped");
    // read it back
    m.move_write_frame_to_read();
    assert!(m.active_read_bit_width() == n);
    let mut r = lead;
    let mut k = 0;
    while k < 3 {
        let kind: u8 = kani::any();
        kani::assume(kind < 3);
        if kind == 0 {
            if r < lead + n {
                assert!(m.peek_bit() == model[r], "peek_bit wrong");
                assert!(m.read_bit() == model[r], "read_bit wrong");
                r += 1;
            }
        } else if kind == 1 {
            let s: usize = kani::any();
            kani::assume(s <= 20);
            if r + s <= lead + n {
                m.fwd(s);
                r += s;
            }
        } else {
            let s: usize = kani::any();
            kani::assume(s <= 20);
            if r >= lead + s {
                m.back(s);
                r -= s;
            }
        }
        k += 1;
    }
    if r < lead + n {
        assert!(m.peek_bit() == model[r], "peek_bit after cursor moves wrong");
    }
    kani::cover!(r == lead + n - 1 && r % 8 == 0, "reading the last bit on a byte boundary");
    m.drop_read_frame();
    assert!(m.next_frame_start() == lead, "drop_read_frame does not release exactly the frame");
    std::mem::forget(m);
}

// ---------------------------------------------------------------- copy
/// copy(k) from the active read frame (cursor moved by `a`) into the active
/// write frame (cursor moved by `s`): the k destination bits equal the k source
/// bits, nothing else changes, the write cursor advances by k (checked by a
/// following write_bit), the read cursor does not move.
fn copy_core<const N: usize>(max_lead: usize, max_rn: usize, max_wn: usize, max_k: usize) {
    let (d0, mut m) = sym_mem_n::<N>();
    let lead: usize = kani::any();
    let rn: usize = kani::any();
    let wn: usize = kani::any();
    kani::assume(lead <= max_lead && rn >= 1 && rn <= max_rn && wn >= 1 && wn <= max_wn);
    m.new_write_frame(lead); // unconditionally (a zero-length frame when lead = 0): the stack depths stay concrete
    m.new_write_frame(rn);
    m.move_write_frame_to_read(); // read frame = bits lead..lead+rn, content = initial memory
    m.new_write_frame(wn);
    let ws = lead + rn;
    let a: usize = kani::any();
    let s: usize = kani::any();
    let k: usize = kani::any();
    kani::assume(a <= rn && s <= wn && k <= max_k);
    kani::assume(a + k <= rn && s + k + 1 <= wn);
    m.fwd(a);
    m.skip(s);
    m.copy(k);
    let q: usize = kani::any();
    kani::assume(q < 8 * N);
    if q >= ws + s && q < ws + s + k {
        assert!(bit(m.data(), q) == bit(&d0, lead + a + (q - ws - s)), "copy wrote a wrong bit");
    } else {
        assert!(bit(m.data(), q) == bit(&d0, q), "copy changed a bit outside its destination");
    }
    // cursors: the next written bit lands right behind the copy, the read cursor stayed
    let b: bool = kani::any();
    m.write_bit(b);
    assert!(bit(m.data(), ws + s + k) == b, "write cursor not advanced by exactly the copied length");
    if a < rn {
        assert!(m.peek_bit() == bit(&d0, lead + a), "copy moved the read cursor");
    }
    kani::cover!(k == max_k && (lead + a) % 8 == 3 && (ws + s) % 8 == 6, "longest copy, both sides unaligned");
    kani::cover!(k == 8 && (lead + a) % 8 == 0 && (ws + s) % 8 == 0, "byte-aligned 8-bit copy");
    kani::cover!(k == 0, "empty copy");
    std::mem::forget(m);
}

/// copies of 0..=9 bits (every pair of alignments; a 9-bit copy always crosses a byte boundary)
#[kani::proof]
#[kani::unwind(11)]
fn k05_copy_9() {
    copy_core::<4>(7, 11, 12, 9)
}

/// copies of 0..=17 bits (a whole byte in the middle for byte-wise fast paths)
#[kani::proof]
#[kani::unwind(19)]
fn k05_copy() {
    copy_core::<6>(8, 19, 20, 17)
}

/// copies of 0..=33 bits
#[kani::proof]
#[kani::unwind(35)]
fn k05_copy_wide() {
    copy_core::<10>(8, 35, 36, 33)
}

// ---------------------------------------------------------------- frame iterators
/// What jets, trackers and `exec`'s result are shown: the rest of a frame from
/// its cursor is exactly the bits cursor..end of the frame, no more, no fewer.
#[kani::proof]
#[kani::unwind(26)]
fn k05_frame_iter() {
    let (d0, mut m) = sym_mem();
    let lead: usize = kani::any();
    let n: usize = kani::any();
    kani::assume(lead <= 9 && n >= 1 && n <= 22);
    m.new_write_frame(lead); // unconditionally (a zero-length frame when lead = 0): the stack depths stay concrete
    m.new_write_frame(n);
    let w: usize = kani::any();
    kani::assume(w <= n);
    m.skip(w);
    // rest of the write frame from its cursor
    {
        let mut it = m.write_frame_iter();
        let mut i = 0;
        while i < 23 {
            let got = it.next();
            if w + i < n {
                assert!(got == Some(bit(&d0, lead + w + i)), "write-frame iterator yields a wrong bit or ends early");
            } else {
                assert!(got.is_none(), "write-frame iterator runs past the frame");
            }
            i += 1;
        }
    }
    // the output as exec reads it: rewound to the start
    {
        let mut it = m.output_iter();
        let mut i = 0;
        while i < 23 {
            let got = it.next();
            if i < n {
                assert!(got == Some(bit(&d0, lead + i)), "output iterator yields a wrong bit or ends early");
            } else {
                assert!(got.is_none(), "output iterator runs past the frame");
            }
            i += 1;
        }
    }
    m.move_write_frame_to_read();
    let a: usize = kani::any();
    kani::assume(a <= n);
    m.fwd(a);
    {
        let mut it = m.read_frame_iter();
        let mut i = 0;
        while i < 23 {
            let got = it.next();
            if a + i < n {
                assert!(got == Some(bit(&d0, lead + a + i)), "read-frame iterator yields a wrong bit or ends early");
            } else {
                assert!(got.is_none(), "read-frame iterator runs past the frame");
            }
            i += 1;
        }
    }
    kani::cover!((lead + n) % 8 == 3 && a == 2 && lead % 8 == 7, "frame ending inside a byte, cursor unaligned");
    kani::cover!((lead + n) % 8 == 0, "frame ending on a byte boundary");
    std::mem::forget(m);
}

// ---------------------------------------------------------------- instruction sequences
/// The instruction sequence of `comp s t` around `iden`-like children with a
/// symbolic intermediate width B, nested inside an outer write frame at a
/// symbolic offset: input A-bits -> (copy into new frame B) -> move -> (copy
/// into the outer frame) -> drop. With B = A the output equals the input
/// whatever the alignment and whatever stale bits the memory holds, the frame
/// stacks return to their depth and `next_frame_start` to its value.
#[kani::proof]
#[kani::unwind(12)]
fn k05_seq_comp() {
    let (d0, mut m) = sym_mem();
    let lead: usize = kani::any();
    let a: usize = kani::any();
    kani::assume(lead <= 8 && a >= 1 && a <= 10);
    m.new_write_frame(lead); // unconditionally (a zero-length frame when lead = 0): the stack depths stay concrete
    // input frame with arbitrary content
    m.new_write_frame(a);
    m.move_write_frame_to_read();
    // output frame
    m.new_write_frame(a);
    let out = lead + a;
    let nfs = m.next_frame_start();
    let depth = m.stack_depths();
    // comp: new_write_frame(B); left = iden: copy(A); move; right = iden: copy(B); drop
    m.new_write_frame(a);
    m.copy(a);
    m.move_write_frame_to_read();
    m.copy(a);
    m.drop_read_frame();
    assert!(m.next_frame_start() == nfs, "comp does not release its intermediate frame");
    assert!(m.stack_depths() == depth, "comp leaves a frame behind");
    let q: usize = kani::any();
    kani::assume(q < a);
    assert!(bit(m.data(), out + q) == bit(&d0, lead + q), "comp iden iden is not the identity on the bits");
    // the input frame is intact and still active
    assert!(m.active_read_bit_width() == a);
    assert!(m.peek_bit() == bit(&d0, lead), "input frame cursor or content disturbed");
    kani::cover!(a == 9 && lead % 8 == 7, "nine bits at offset 7");
    kani::cover!(a == 10, "ten bits");
    std::mem::forget(m);
}

/// The sequences of `drop`/`take` around a `case`: input (tag, padding, payload)
/// of symbolic widths; `case` peeks the tag, moves forward by 1 + pad, the
/// branch copies its payload, `back` restores the cursor: the output is the
/// payload of the side the tag selects and the read cursor is back at the tag.
#[kani::proof]
#[kani::unwind(12)]
fn k05_seq_case() {
    let (d0, mut m) = sym_mem();
    let lead: usize = kani::any();
    let wl: usize = kani::any(); // width of the left summand
    let wr: usize = kani::any(); // width of the right summand
    let pre: usize = kani::any(); // bits of the input in front of the sum (dropped)
    kani::assume(lead <= 8 && wl <= 5 && wr <= 5 && pre <= 4);
    let wmax = if wl > wr { wl } else { wr };
    let inw = pre + 1 + wmax;
    m.new_write_frame(lead); // unconditionally (a zero-length frame when lead = 0): the stack depths stay concrete
    m.new_write_frame(inw);
    m.move_write_frame_to_read();
    m.new_write_frame(wmax + 1);
    let out = lead + inw;
    // drop: fwd(pre)
    m.fwd(pre);
    let tag = m.peek_bit();
    assert!(tag == bit(&d0, lead + pre), "case reads the wrong tag bit");
    let (pad, w) = if tag { (wmax - wr, wr) } else { (wmax - wl, wl) };
    m.fwd(1 + pad);
    m.copy(w);
    m.back(1 + pad);
    m.back(pre);
    let q: usize = kani::any();
    kani::assume(q < w);
    assert!(bit(m.data(), out + q) == bit(&d0, lead + pre + 1 + pad + q), "case branch copied the wrong payload bits");
    assert!(m.peek_bit() == bit(&d0, lead), "cursor not restored after case");
    kani::cover!(tag && wr < wl && pre == 3, "right branch taken, right side narrower");
    kani::cover!(!tag && wl < wr, "left branch taken, left side narrower");
    std::mem::forget(m);
}

/// `injl`/`injr` then payload: tag, skip(pad), payload written; `write_bytes`
/// (disconnect's CMR, word constants) at an unaligned cursor.
#[kani::proof]
#[kani::unwind(12)]
fn k05_seq_inj_bytes() {
    let (d0, mut m) = sym_mem();
    let lead: usize = kani::any();
    let pad: usize = kani::any();
    kani::assume(lead <= 8 && pad <= 6);
    m.new_write_frame(lead); // unconditionally (a zero-length frame when lead = 0): the stack depths stay concrete
    m.new_write_frame(1 + pad + 16);
    let tag: bool = kani::any();
    m.write_bit(tag);
    m.skip(pad);
    let bytes: [u8; 2] = kani::any();
    m.write_bytes(&bytes);
    assert!(bit(m.data(), lead) == tag, "tag bit wrong");
    let q: usize = kani::any();
    kani::assume(q < 16);
    assert!(bit(m.data(), lead + 1 + pad + q) == bit(&bytes, q), "write_bytes wrote a wrong bit");
    let p: usize = kani::any();
    kani::assume(p < pad);
    assert!(bit(m.data(), lead + 1 + p) == bit(&d0, lead + 1 + p), "skip changed a padding bit");
    untouched_outside(&d0, &m, lead, lead + 1 + pad + 16);
    kani::cover!((lead + 1 + pad) % 8 == 0, "bytes written on a byte boundary");
    kani::cover!((lead + 1 + pad) % 8 == 5, "bytes written at bit 5");
    std::mem::forget(m);
}

/// `pair (take iden) (drop iden)` on an input of type A x B: copy(A); fwd(A);
/// copy(B); back(A): the output equals the input, the cursor is restored.
#[kani::proof]
#[kani::unwind(12)]
fn k05_seq_pair_take_drop() {
    let (d0, mut m) = sym_mem();
    let lead: usize = kani::any();
    let a: usize = kani::any();
    let b: usize = kani::any();
    kani::assume(lead <= 8 && a <= 7 && b <= 7 && a + b >= 1);
    m.new_write_frame(lead);
    m.new_write_frame(a + b);
    m.move_write_frame_to_read();
    m.new_write_frame(a + b);
    let out = lead + a + b;
    m.copy(a);
    m.fwd(a);
    m.copy(b);
    m.back(a);
    let q: usize = kani::any();
    kani::assume(q < a + b);
    assert!(bit(m.data(), out + q) == bit(&d0, lead + q), "pair (take iden) (drop iden) is not the identity");
    assert!(m.peek_bit() == bit(&d0, lead), "cursor not restored after drop");
    kani::cover!(a == 7 && b == 7 && lead == 3, "two 7-bit halves at offset 3");
    kani::cover!(a == 0, "empty left component");
    std::mem::forget(m);
}

/// The sequence of `disconnect s t` (with a 2-byte stand-in for the 32-byte
/// CMR; `write_bytes` takes any slice): frame (cmr ++ input) is built and
/// given to the left child, whose output (B ++ C) is split: B is copied to the
/// outer frame (`CopyFwd`), the right child reads C behind it; both frames are
/// dropped. With copy-like children the outer output is the first B + C bits
/// of cmr ++ input, in order.
#[kani::proof]
#[kani::unwind(20)]
fn k05_seq_disconnect() {
    let (d0, mut m) = sym_mem_n::<8>();
    let lead: usize = kani::any();
    let a: usize = kani::any();
    let b: usize = kani::any();
    let c: usize = kani::any();
    kani::assume(lead <= 8 && a >= 1 && a <= 6 && b <= 6 && c <= 6 && b + c >= 1);
    let cmr: [u8; 2] = kani::any();
    m.new_write_frame(lead);
    m.new_write_frame(a);
    m.move_write_frame_to_read(); // input
    m.new_write_frame(b + c); // outer output
    let out = lead + a;
    let nfs = m.next_frame_start();
    let depth = m.stack_depths();
    // disconnect arm
    m.new_write_frame(16 + a);
    m.write_bytes(&cmr);
    m.copy(a);
    m.move_write_frame_to_read();
    m.new_write_frame(b + c);
    // left child (copy-like): its input is cmr ++ input
    m.copy(b + c);
    m.move_write_frame_to_read();
    // CopyFwd(b)
    m.copy(b);
    m.fwd(b);
    // right child = iden on C
    m.copy(c);
    m.drop_read_frame();
    m.drop_read_frame();
    assert!(m.next_frame_start() == nfs, "disconnect does not release its two frames");
    assert!(m.stack_depths() == depth, "disconnect leaves a frame behind");
    let q: usize = kani::any();
    kani::assume(q < b + c);
    let want = if q < 16 { bit(&cmr, q) } else { bit(&d0, lead + (q - 16)) };
    assert!(bit(m.data(), out + q) == want, "disconnect sequence delivers wrong bits");
    assert!(m.peek_bit() == bit(&d0, lead), "input frame disturbed by disconnect");
    kani::cover!(b == 6 && c == 6 && lead % 8 == 5, "six and six bits, unaligned");
    std::mem::forget(m);
}
