// Kani concrete playback for harness k10_copy_bits (module c10k.rs)
// replay: vcheck.py --replay /verif/replays/C10/k10_copy_bits.playback.rs
#[test]
fn kani_concrete_playback_k10_copy_bits_16608920656363769081() {
    let concrete_vals: Vec<Vec<u8>> = vec![
        // 104
        vec![104],
        // 105
        vec![105],
        // 105
        vec![105],
        // 38
        vec![38],
        // 38
        vec![38],
        // 105
        vec![105],
        // 16ul
        vec![16, 0, 0, 0, 0, 0, 0, 0],
        // 8ul
        vec![8, 0, 0, 0, 0, 0, 0, 0],
        // 1ul
        vec![1, 0, 0, 0, 0, 0, 0, 0],
        // 14ul
        vec![14, 0, 0, 0, 0, 0, 0, 0],
    ];
    kani::concrete_playback_run(concrete_vals, k10_copy_bits);
}