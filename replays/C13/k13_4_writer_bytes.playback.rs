// Kani concrete playback for harness k13_4_writer_bytes (module c13.rs)
// replay: vcheck.py --replay /verif/replays/C13/k13_4_writer_bytes.playback.rs
#[test]
fn kani_concrete_playback_k13_4_writer_bytes_9481531623107572161() {
    let concrete_vals: Vec<Vec<u8>> = vec![
        // 0ul
        vec![0, 0, 0, 0, 0, 0, 0, 0],
        // 0
        vec![0, 0],
        // 0
        vec![0],
        // 0
        vec![0],
        // 0
        vec![0],
    ];
    kani::concrete_playback_run(concrete_vals, k13_4_writer_bytes);
}
