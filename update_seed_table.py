#!/usr/bin/env python3
"""regenerate the seeded-changes table of DESIGN.md from seeded/*/meta.json"""
import json,glob
rows=[]
for d in sorted(glob.glob('/verif/seeded/*/meta.json')):
    m=json.load(open(d))
    rows.append("| %s | %s | %s | %s | %s |" % (m['id'], m['property'], m['change'].replace('|','\\|'), m['needs_to_manifest'].replace('|','\\|'), (m.get('check_result') or 'pending').replace('|','\\|')))
table="| seed | property | change | needs | result of the registered quick check |\n|---|---|---|---|---|\n"+"\n".join(rows)
p='/verif/DESIGN.md'; s=open(p).read()
a=s.index('<!-- SEEDED_TABLE_BEGIN -->'); b=s.index('<!-- SEEDED_TABLE_END -->')
s=s[:a]+'<!-- SEEDED_TABLE_BEGIN -->\n'+table+'\n'+s[b:]
open(p,'w').write(s)
print(len(rows),'rows')
