"""Which harnesses decide which property, with their bounds (DESIGN.md §2)."""
from .kani import Harness as H

STANDING_ASSUMPTIONS = [
    "Kani 0.68.0 / CBMC 6.11.0 / CaDiCaL are sound; Kani's model of the Rust dev profile (overflow checks and debug assertions on) on its own pinned toolchain (nightly-2026-08-21) stands for the shipped build; counterexamples are additionally replayed natively",
    "allocation never fails (--no-malloc-may-fail)",
    "every verdict is bounded: loops/recursion are unrolled to the stated unwind bounds with unwinding assertions ON, so a bound that is too small is reported as inconclusive, never as a pass",
]

# unwindset rule shorthands -------------------------------------------------
BITITER_NEXT_REC = (r"BitIter<.*> as .*Iterator>::next$", "rec", 3)
WRITE_BIT_REC = (r"BitWriter::<.*>::write_bit$", "rec", 3)

PROPS = {}

def nat_rules(levels, bits):
    """unwindset for the natural-number codec: `levels` = iterations of the
    per-level loops (+ slack), `bits` = iterations of the per-bit loops"""
    return [BITITER_NEXT_REC, WRITE_BIT_REC,
            (r"BitWriter::<.*>::write_bits_be$", "*", bits),
            (r"::read_natural::<", ("rank", 0), levels),   # unary prefix loop
            (r"::read_natural::<", ("rank", 1), levels),   # per-level loop
            (r"::read_natural::<", ("rank", 2), bits),     # per-bit loop
            (r"encode_natural::<", "*", levels),
            (r"^c13::", "*", 70),
            # any other loop of the reader/writer (e.g. after a helper was split off): the per-bit bound
            (r"(BitIter|BitWriter)::<.*>::(?!next$|write_bit$)\w+(::<.*>)?$", "fallback", bits),
            (r"^simplicity::(bit_encoding::\w+::)?\w+(::<.*>)?$", "fallback", bits)]


PROPS["C13"] = {
    "filters": ["k13_"],
    "functions": [
        "BitIter::{next,read_bit,read_u2,read_u8,read_natural,n_total_read,close,byte_slice_window}",
        "BitWriter::{write_bit,write_bits_be,flush_all,n_total_written,<io::Write>::write}",
        "encode_natural", "BitCollector::collect_bits",
    ],
    "bounds": "reader/writer/window/close: 3 symbolic bytes, 4 operations of symbolic kind, every alignment; "
              "naturals: quick encoder->decoder round trip for n in [1,2^12) with u32 result (with and without a symbolic bound), "
              "[1,2^17) with u16 result (overflow rejected), [1,2^16) with usize result and symbolic bound; thorough adds the u32 round trip on [1,2^16), [2^16,2^32) and "
              "[2^32,2^34) must-reject; decoder canonicity: arbitrary strings split by unary-prefix length, quick k=0..2 (<= 3 bytes), "
              "thorough k=3..6 (<= 7 bytes)",
    "outside": "strings longer than 6 bytes, op sequences longer than 4, write failure (infallible sink)",
    "assumptions": ["io sink is infallible (harness Sink)"],
    "harnesses": [
        H("k13_1_reader_ops", timeout=300),
        H("k13_2_window_bits", timeout=300),
        H("k13_2_window_u8", timeout=300),
        H("k13_2_window_ops", timeout=600),
        H("k13_3_close", timeout=300),
        H("k13_4_writer_ops", timeout=900, unwindset=[BITITER_NEXT_REC, WRITE_BIT_REC]),
        H("k13_4_writer_bytes", timeout=900, unwindset=[BITITER_NEXT_REC, WRITE_BIT_REC]),
        H("k13_4_collect_bits", timeout=900, unwindset=[BITITER_NEXT_REC, WRITE_BIT_REC]),
        H("k13_4_write_bits_be_wide", timeout=900, unwind=8, unwindset=[BITITER_NEXT_REC, WRITE_BIT_REC, (r"write_bits_be", "*", 67)]),
        H("k13_5_nat_roundtrip_u12range", timeout=900, mem_gb=12, unwind=5, unwindset=nat_rules(6, 13)),
        H("k13_5_nat_roundtrip_u16range", tiers=("thorough",), timeout=1800, mem_gb=12, unwind=5, unwindset=nat_rules(6, 17)),
        H("k13_5_nat_u16_result", timeout=1500, mem_gb=12, unwind=5, unwindset=nat_rules(6, 18)),
        H("k13_5_nat_usize_result", timeout=1500, mem_gb=12, unwind=5, unwindset=nat_rules(6, 17)),
        # thorough-only harnesses, in the order in which they are started (the one known to finish first)
        H("k13_6_canon_k5_wide", tiers=("thorough",), timeout=7200, mem_gb=40, core=False, unwind=5, unwindset=nat_rules(8, 66)),
        H("k13_5_nat_roundtrip_u32range", tiers=("thorough",), timeout=7200, mem_gb=40, core=False, unwind=5,
          unwindset=nat_rules(7, 33)),
        H("k13_5_nat_too_large_rejected", tiers=("thorough",), timeout=7200, mem_gb=40, core=False, unwind=5,
          unwindset=nat_rules(7, 35)),
        H("k13_6_canon_k0", timeout=600, unwind=5, unwindset=nat_rules(3, 3)),
        H("k13_6_canon_k1", timeout=600, unwind=5, unwindset=nat_rules(4, 3)),
        H("k13_6_canon_k2", timeout=600, unwind=5, unwindset=nat_rules(5, 5)),
        H("k13_6_canon_k3", tiers=("thorough",), timeout=2400, mem_gb=12, unwind=5, unwindset=nat_rules(6, 17)),
        H("k13_6_canon_k4", tiers=("thorough",), timeout=7200, mem_gb=40, core=False, unwind=5, unwindset=nat_rules(7, 33)),
        H("k13_6_canon_k5", tiers=("thorough",), timeout=7200, mem_gb=40, core=False, unwind=5, unwindset=nat_rules(8, 33)),
        H("k13_6_canon_k6", tiers=("thorough",), timeout=7200, mem_gb=40, core=False, unwind=5,
          unwindset=nat_rules(9, 33)),
    ],
}

PROPS["C19"] = {
    "engine": "mir",
    "assumptions": [
        "Vec<Vec<u8>>::consensus_encode returns cs(n) + sum(cs(len_i) + len_i) with the Bitcoin/Elements CompactSize rule cs = 1/3/5/9 at 253 / 2^16 / 2^32 (environment model; validated on every run against the native encoder on the translator-validation vectors)",
        "once(0x50).chain(repeat(0).take(p)).collect::<Vec<u8>>() has length 1+p, first byte 0x50, rest 0 (model of core iterators)",
        "models of core integer helpers (saturating_add/sub/mul, TryFrom between unsigned ints, From<u32> for u64, Result::expect/unwrap_or, default PartialOrd::le over the type's own partial_cmp) as written in vlib/mir2smt.py",
        "rustc nightly's MIR (overflow checks on, debug assertions off) reflects the shipped semantics; z3 5.1.0 and cvc5 1.0.3 agree on every query",
    ],
}

# ---------------------------------------------------------------- value family (C10, C11)
def ty_stats(code):
    """(padded width, oracle nodes, depth incl. word expansion) of a postfix type code"""
    st = []
    n = 0
    for c in code:
        n += 1
        if c == "u":
            st.append((0, 0))
        elif c in "bcny":
            k = {"b": 0, "c": 1, "n": 2, "y": 3}[c]
            st.append((1 << k, k + 1))
        else:
            (wr, dr), (wl, dl) = st.pop(), st.pop()
            st.append(((1 + max(wl, wr)) if c == "+" else (wl + wr), 1 + max(dl, dr)))
    (w, d) = st[0]
    return w, n, d


def val_rules(code, lead=0, extra=()):
    """unwindset for the value family, derived from the type shape: loops whose
    exit CBMC cannot fold to a constant are unrolled to exactly these bounds
    (unwinding assertions make a too-small bound an *inconclusive*, never a pass)"""
    w, n, d = ty_stats(code)
    w += lead
    n += 2 * lead
    d += lead
    return [
        BITITER_NEXT_REC,
        (r"^memcmp$", "*", 34),                  # [u8; 32] equality (TMR comparison)
        (r"^(vals|c10|c11|hcons)::", "*", 34),
        (r"vals::(mark|n_paths|fix_tags)$", "rec", 8),
        (r"Value::from_compact_bits", "*", 2 * n + 3),
        (r"Value::from_padded_bits", ("rank", 0), w // 8 + 2),
        (r"Value::from_padded_bits", ("rank", 1), 9),
        (r"Value::prune", "*", 3 * n + 3),
        (r"CompactBitsIter<'_> as std::iter::Iterator>::next", "*", d + 3),
        (r"CompactBitsIter<'_> as std::iter::Iterator>::fold", "*", w + 2),
        (r"value::copy_bits", "*", w + 2),
        (r"BitCollector>::collect_bits", "*", w + 2),
        (r"Iterator>::fold::<u8", "*", 10),
        (r"extend_with", "*", 10),
    ] + list(extra)


def valk_rules(w=16):
    return [BITITER_NEXT_REC,
            (r"^(vals|c10k|hcons)::", "*", 34),
            (r"vals::(mark|n_paths|fix_tags)$", "rec", 8),
            (r"^memcmp$", "*", 34),
            (r"Value::from_padded_bits", ("rank", 0), w // 8 + 2),
            (r"Value::from_padded_bits", ("rank", 1), 9),
            (r"value::copy_bits", "*", 18),
            (r"RecHasher", "*", 34)]


ACC = ["sum_u_b", "sum_n_b", "sum_b_y", "prod_b_y", "prod_u_c", "prod_sum", "sum_prod", "sum_sum"]
QUICK_ACC = {"sum_n_b", "sum_b_y", "prod_sum"}
PROPS["C10"] = {
    "filters": ["k10_"],
    "functions": ["value::{copy_bits, right_shift_1, product} (private kernels behind Value::{left,right,product}, via verif-hooks)",
                  "ValueRef::{as_left, as_right, as_product, first_bit, to_value}", "RawByteIter::next", "Value::{iter_padded, padded_len}",
                  "Final::{sum, product, bit_width, as_sum, as_product}"],
    "bounds": "buffers of 2-4 symbolic bytes, every bit offset 0..7, copies of up to 16 bits at every source/destination alignment; 8 type shapes (sums of unequal width with padding on either side, unit-heavy and nested products/sums, widths crossing byte boundaries) with all data, padding and surrounding bits symbolic",
    "outside": "Value::from_padded_bits (56 M SAT variables for a 9-bit type: out of memory); the compact encoding (CompactBitsIter, from_compact_bits) and Value::prune: they walk Vec<ValueRef>/Vec<Value> worklists whose symbolic execution exhausts 62 GB even for a 2-bit value (measured, DESIGN.md); types wider than 17 bits; words beyond 2^8, buffer and context types",
    "assumptions": ["values are built from raw parts (buffer, bit offset, type) through the verif-hooks, which is what sub-value extraction produces",
                    "Tmr::sum/product stubbed by exact hash-consing (type equality exact, root values abstract); precomputed types rebuilt without the thread-local cache; Arc::drop_slow leaks"],
    "harnesses": [
        H("k10_copy_bits", timeout=900),
        H("k10_right_shift_1", timeout=900, unwindset=valk_rules()),
        H("k10_product_kernel_3_5", timeout=1200, mem_gb=16, unwindset=valk_rules()),
        H("k10_product_kernel_9_1", tiers=("thorough",), timeout=1200, mem_gb=16, unwindset=valk_rules()),
        H("k10_product_kernel_0_8", tiers=("thorough",), timeout=1200, mem_gb=16, unwindset=valk_rules()),
    ] + [H("k10_acc_%s" % a, tiers=(("quick", "thorough") if a in QUICK_ACC else ("thorough",)), timeout=2400, mem_gb=26,
           unwind=8, unwindset=valk_rules()) for a in ACC] + [
    ],
}

PROPS["C11"] = {
    "filters": ["k11_"],
    "functions": ["<Value as PartialEq>::eq", "<Value as Ord>::cmp", "<Value as PartialOrd>::partial_cmp", "<Value as Hash>::hash", "RawByteIter::next", "<Final as PartialEq>::eq"],
    "bounds": "pairs of values of the same type built from independent 4-byte symbolic buffers at independent bit offsets 0..7, and pairs cut out of one shared buffer at two offsets (siblings); types: 2+2^8, (1+2)x2^4, 2^8, 2^4+2 (clean histories) and 2+2^8, 2 (dirty histories: arbitrary sum padding and arbitrary bits after the value)",
    "outside": "histories that need the compact decoder or prune; transitivity over triples in the quick tier (thorough: k11_trans_* on two shapes); other type shapes",
    "assumptions": ["values are built from raw parts through the verif-hooks", "Tmr stubs as in C10"],
    "harnesses": [
        H("k11_eq_clean_sum_b_y", timeout=1800, mem_gb=16, unwind=8, unwindset=valk_rules()),
        H("k11_eq_clean_prod_sum", timeout=1800, mem_gb=16, unwind=8, unwindset=valk_rules()),
        H("k11_eq_clean_byte", tiers=("thorough",), timeout=1800, mem_gb=16, unwind=8, unwindset=valk_rules()),
        H("k11_eq_clean_sum_n_b", tiers=("thorough",), timeout=1800, mem_gb=16, unwind=8, unwindset=valk_rules()),
        H("k11_eq_shared_byte", timeout=1800, mem_gb=16, unwind=8, unwindset=valk_rules()),
        H("k11_eq_shared_u16", tiers=("thorough",), timeout=1800, mem_gb=16, unwind=8, unwindset=valk_rules()),
        H("k11_trans_clean_sum_b_y", tiers=("thorough",), timeout=2400, mem_gb=20, unwind=8, unwindset=valk_rules()),
        H("k11_trans_clean_prod_sum", tiers=("thorough",), timeout=2400, mem_gb=20, unwind=8, unwindset=valk_rules()),
        H("k11_eq_dirty_sum_b_y", timeout=1800, mem_gb=16, unwind=8, unwindset=valk_rules()),
        H("k11_eq_dirty_bit", timeout=1800, mem_gb=16, unwind=8, unwindset=valk_rules()),
    ],
}

PROPS["C14"] = {
    "engine": "mir",
    "assumptions": [
        "the bit reader is modelled as a stream of up to 24 symbolic bits with a cursor (Iterator::next returns the next bit or None at the symbolic end); BitWriter::write_bits_be(n, len) is modelled as emitting the len low bits of n, most significant first (both are checked on the real code under C13)",
        "variant <-> discriminant <-> name tables are read from the compiled MIR of the derived Debug impl and of Display; every table is validated against the native build (encode, decode, Display, FromStr of every jet) on every run",
        "str equality is modelled as equality of interned identifiers of the string constants",
    ],
}

def dag_rules(n, items):
    return [
        (r"^c18::", "*", 17),
        (r"^c18::(oracle_post|oracle_pre)$", "rec", n + 2),
        (r"PostOrderIter<.*> as .*Iterator>::next$", "*", 2 * n + 3),
        (r"PreOrderIter<.*> as .*Iterator>::next$", "*", n + 3),
    ]


PROPS["C18"] = {
    "filters": ["k18_"],
    "functions": ["PostOrderIter::next", "PreOrderIter::next", "SwapChildren", "PostOrderIterItem::unswap",
                  "DagLike::{post_order_iter, rtl_post_order_iter, pre_order_iter, left_child, right_child}"],
    "bounds": "every DAG of exactly 3 (quick) / 4 (thorough) nodes whose edges point to lower-numbered nodes (root = last), every arity, repeated children, diamonds, child-and-grandchild; sharing: pointer identity, an arbitrary congruence (identity-hash sharing), none (tree expansion up to 7 / 15 items)",
    "outside": "graphs with more than 4 nodes; the HashMap-backed trackers InternalSharing/MaxSharing (replaced by an array-backed implementation of the same SharingTracker trait); VerbosePreOrderIter; is_shared_as",
    "assumptions": ["sharing trackers are array-backed implementations of the real SharingTracker trait keyed by node index / class id"],
    "harnesses": [
        H("k18_post_ptr_n3", timeout=900, unwindset=dag_rules(3, 3)),
        H("k18_post_cls_n3", timeout=900, unwindset=dag_rules(3, 3)),
        H("k18_post_nosharing_n3", timeout=900, unwindset=dag_rules(3, 7)),
        H("k18_rtl_ptr_n3", timeout=900, unwindset=dag_rules(3, 3)),
        H("k18_rtl_cls_n3", timeout=900, unwindset=dag_rules(3, 3)),
        H("k18_rtl_nosharing_n3", timeout=900, unwindset=dag_rules(3, 7)),
        H("k18_pre_ptr_n3", timeout=900, unwindset=dag_rules(3, 3)),
        H("k18_pre_cls_n3", timeout=900, unwindset=dag_rules(3, 3)),
        H("k18_post_ptr_n4", tiers=("thorough",), timeout=3000, mem_gb=16, unwindset=dag_rules(4, 4)),
        H("k18_post_cls_n4", tiers=("thorough",), timeout=3000, mem_gb=16, unwindset=dag_rules(4, 4)),
        H("k18_rtl_cls_n4", tiers=("thorough",), timeout=3000, mem_gb=16, unwindset=dag_rules(4, 4)),
        H("k18_pre_cls_n4", tiers=("thorough",), timeout=3000, mem_gb=16, unwindset=dag_rules(4, 4)),
        H("k18_post_nosharing_n4", tiers=("thorough",), timeout=3600, mem_gb=20, core=False, unwindset=dag_rules(4, 15)),
    ],
}

def frame_rules(nat_bits=4):
    return [BITITER_NEXT_REC, WRITE_BIT_REC,
            (r"BitWriter::<.*>::write_bits_be$", "*", 10),
            (r"::read_natural::<", ("rank", 0), 4),
            (r"::read_natural::<", ("rank", 1), 4),
            (r"::read_natural::<", ("rank", 2), nat_bits + 1),
            (r"encode_natural::<", "*", 4),
            (r"encode::encode_hash", "*", 66),
            (r"BitIter::<.*>::read_(cmr|fail_entropy)$", "*", 66),
            (r"^(c01|hcons)::", "*", 66),
            (r"sink::Sink<", "*", 4)]


FRAME_KINDS = ["iden", "unit", "injl", "injr", "take", "drop", "comp", "case", "pair", "disconnect2",
               "disconnect1", "witness", "fail", "jet", "assertl", "assertr"]
QUICK_FRAMES = {"iden", "injl", "comp", "disconnect1", "witness", "jet", "assertl"}

PROPS["C01"] = {
    "filters": ["k01_"],
    "functions": ["bit_encoding::encode::encode_node (private, via verif-hooks)", "bit_encoding::decode::decode_node (private, via verif-hooks)",
                  "encode_natural", "BitIter::read_natural", "encode_hash", "BitIter::{read_cmr, read_fail_entropy}"],
    "bounds": "one node of each of the 16 combinator kinds + hidden, at a symbolic position index in [1,15] with symbolic child positions, symbolic fail entropy / hidden CMR / jet choice: encode_node then decode_node gives the same combinator, the same absolute child indices and payload and consumes exactly the written bits",
    "outside": "whole programs (sharing, canonical order, type inference, witness attachment: the program-level encoder/decoder works on Arc/Vec/HashMap structures that CBMC cannot execute symbolically in reach - measured, see DESIGN.md); word nodes (Value machinery); the real jet families (their codes are C14's subject: a two-jet family stands in); positions above 15 (back references beyond 3-level naturals; the natural codec itself is C13's subject)",
    "assumptions": ["nodes are built with Node::from_parts for a harness-defined Marker (no cached data)", "CMR constructors stubbed by exact hash-consing (values abstract)"],
    "harnesses": [H("k01_frame_%s" % k, tiers=(("quick", "thorough") if k in QUICK_FRAMES else ("thorough",)), timeout=1800, mem_gb=12,
                    unwind=5, unwindset=frame_rules()) for k in FRAME_KINDS]
                 + [H("k01_frame_hidden", timeout=1800, mem_gb=12, unwind=5, unwindset=frame_rules())],
}

PROPS["C02"] = {
    "filters": ["k02_"],
    "functions": ["bit_encoding::decode::decode_node (private, via verif-hooks)", "BitIter::{read_bit, read_u2, read_u8, read_cmr, read_fail_entropy, next}"],
    "bounds": "one harness per node class (leading code bits concrete, everything after them symbolic, symbolic length, arbitrary usize position): quick = classes without back references (iden/unit, fail with its 64 entropy bytes, witness, hidden with its CMR, jets); quick also has the one-reference classes (unary, disconnect1, word) with the real read_natural and reference prefixes of at most two ones (references < 16) and word length fields 32..63; thorough widens the prefixes to three ones (references < 2^16, 5-byte strings): the node decoder never panics or overflows (index - natural, n - 1, word size) and only returns child references strictly below its position",
    "outside": "whole-program decoding and the canonicity rules that need several nodes (sharing, hidden-node repetition, canonical order, padding/trailing bytes at program level): Arc/Vec/HashSet/type-inference structures are out of CBMC's reach (measured); BitIter::close is covered under C13; word bodies (Word::from_bits modelled); allocation bounds",
    "assumptions": [
        "Word::from_bits is replaced by a model (ends the stream or returns a word; asserts n <= 31)",
        "a two-jet stand-in family (the real jet decoders are total by C14 K14.0)",
    ],
    # admit_gb: measured peak RSS 5.5 GB per harness, 41 GB with eight running at once
    "harnesses": [H("k02_total_%s" % k, timeout=1500, mem_gb=12, admit_gb=6, unwind=5,
                    unwindset=[BITITER_NEXT_REC, (r"BitIter::<.*>::read_(cmr|fail_entropy)$", "*", 66), (r"^(c01|hcons)::", "*", 72)])
                  for k in ("iden_unit", "fail", "witness", "hidden", "jet")]
               + [H("k02_total_%s_k2" % k, timeout=2400, mem_gb=24, admit_gb=6, unwind=5,
                    unwindset=[BITITER_NEXT_REC, (r"BitIter::<.*>::read_(cmr|fail_entropy)$", "*", 66), (r"^(c01|hcons)::", "*", 72),
                               (r"::read_natural::<", ("rank", 0), 5), (r"::read_natural::<", ("rank", 1), 5),
                               (r"::read_natural::<", ("rank", 2), 5)])
                  for k in ("unary", "disconnect1", "word")]
               + [H("k02_total_word_len6", timeout=2400, mem_gb=24, admit_gb=6, unwind=5,
                    unwindset=[BITITER_NEXT_REC, (r"BitIter::<.*>::read_(cmr|fail_entropy)$", "*", 66), (r"^(c01|hcons)::", "*", 72),
                               (r"::read_natural::<", ("rank", 0), 6), (r"::read_natural::<", ("rank", 1), 6),
                               (r"::read_natural::<", ("rank", 2), 7)])]
               + [H("k02_total_%s_k3" % k, tiers=("thorough",), timeout=5400, mem_gb=24, core=False, unwind=5,
                    unwindset=[BITITER_NEXT_REC, (r"BitIter::<.*>::read_(cmr|fail_entropy)$", "*", 66), (r"^(c01|hcons)::", "*", 72),
                               (r"::read_natural::<", ("rank", 0), 6), (r"::read_natural::<", ("rank", 1), 6),
                               (r"::read_natural::<", ("rank", 2), 18)])
                  for k in ("unary", "disconnect1", "word")],
}


# ---------------------------------------------------------------- Bit Machine frame kernels (C05, kernel level)
def mac_rules():
    return [BITITER_NEXT_REC, (r"^c05k::", "*", 42)]


PROPS["C05"] = {
    "filters": ["k05_"],
    "functions": ["bit_machine::frame::Frame::{new, peek_bit, read_bit, write_bit, write_u8, move_cursor_forward, move_cursor_backward, copy_from, reset_cursor, as_bit_iter_from_cursor, bit_width, start}",
                  "BitMachine::{new_write_frame, move_write_frame_to_read, drop_read_frame, write_bit, write_u8, write_bytes, skip, copy, fwd, back, read_bit, active_read_bit_width, active_write_bit_width} (private, via verif-hooks Mac)",
                  "BitIter::byte_slice_window + next (frame iterators)"],
    "bounds": "a machine over 5 symbolic bytes of memory (stale bits everywhere), a leading frame of 0..9 bits so that every frame under test starts at every bit alignment; write frames of up to 20 bits with 4 write operations of symbolic kind (write_bit/skip/write_u8) then 3 read operations of symbolic kind (read_bit+peek/fwd/back); copy of 0..17 bits (thorough: 0..33) between frames at symbolic cursors; frame iterators over frames of 1..22 bits from every cursor; the instruction sequences the interpreter issues for comp (widths 1..10), pair of take/drop (halves 0..7), disconnect (2-byte stand-in for the CMR, widths up to 6), case under drop (summand widths 0..5, 0..4 dropped bits), injl/injr + write_bytes (padding 0..6, 2 bytes)",
    "outside": "BitMachine::exec_with_tracker itself (explicit call stack over Arc<Node>/Vec: not executable under CBMC in reach, DESIGN.md 1.4) - so which sequence of micro-operations a combinator issues is NOT checked against the semantics, only that each micro-operation and each replayed sequence moves exactly the right bits; jets and exec_jet (FFI); write_value/from_padded_bits (Value machinery, C10); frames longer than 22 bits, memories above 5 bytes",
    "assumptions": ["the machine is built over caller-supplied memory through the verif-hooks (Mac::new), with frame stacks of capacity 6; operations stay inside their frame (what well-typedness + C07's bounds give the interpreter)"],
    "harnesses": [
        H("k05_write_then_read", timeout=1500, mem_gb=16, unwindset=mac_rules()),
        H("k05_copy_9", timeout=1500, mem_gb=16, unwindset=mac_rules()),
        H("k05_copy", timeout=1500, mem_gb=16, unwindset=mac_rules()),
        H("k05_copy_wide", tiers=("thorough",), timeout=3600, mem_gb=24, unwindset=[BITITER_NEXT_REC, (r"^c05k::", "*", 82)]),
        H("k05_seq_pair_take_drop", timeout=1500, mem_gb=16, unwindset=mac_rules()),
        H("k05_seq_disconnect", timeout=1500, mem_gb=16, unwindset=[BITITER_NEXT_REC, (r"^c05k::", "*", 66)]),
        H("k05_frame_iter", timeout=1500, mem_gb=16, unwindset=mac_rules()),
        H("k05_seq_comp", timeout=1500, mem_gb=16, unwindset=mac_rules()),
        H("k05_seq_case", timeout=1500, mem_gb=16, unwindset=mac_rules()),
        H("k05_seq_inj_bytes", timeout=1500, mem_gb=16, unwindset=mac_rules()),
    ],
}

PROPS["C07"] = {
    "engine": "mir",
    "assumptions": [
        "the interpreter's peak cell/frame usage per combinator is the recurrence read off BitMachine::exec_with_tracker (comp: mid + max, 1 + max; disconnect: src + tgt + max, 2 + max; case/pair: max; unary: child; leaves: 0); it is a model, validated natively against the real interpreter's verif-hooks high-water marks on a family of concrete programs on every run",
        "frame bounds of sub-expressions are at most 2^62 (they count nested frames)",
        "models of core helpers (cmp::max, Try::branch, FromResidual, Arc deref, vec allocation returning the requested length/capacity) as written in vlib/mir2smt.py and vlib/mircheck.py",
    ],
}
