// Kani concrete playback for harness k02_total_disconnect1_k2 (module c01.rs)
// replay: vcheck.py --replay /verif/replays/C02/k02_total_disconnect1_k2.playback.rs
#[test]
fn kani_concrete_playback_k02_total_disconnect1_k2_71103250772124619() {
    let concrete_vals: Vec<Vec<u8>> = vec![
        // 254
        vec![254],
        // 255
        vec![255],
        // 255
        vec![255],
        // 1ul
        vec![1, 0, 0, 0, 0, 0, 0, 0],
        // 18446744073709551615ul
        vec![255, 255, 255, 255, 255, 255, 255, 255],
    ];
    kani::concrete_playback_run(concrete_vals, k02_total_disconnect1_k2);
}