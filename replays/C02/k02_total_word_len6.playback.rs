// Kani concrete playback for harness k02_total_word_len6 (module c01.rs)
// replay: vcheck.py --replay /verif/replays/C02/k02_total_word_len6.playback.rs
#[test]
fn kani_concrete_playback_k02_total_word_len6_13942750330507355978() {
    let concrete_vals: Vec<Vec<u8>> = vec![
        // 0
        vec![0],
        // 0
        vec![0],
        // 0
        vec![0],
        // 0ul
        vec![0, 0, 0, 0, 0, 0, 0, 0],
        // 0
        vec![0],
        // 0
        vec![0],
    ];
    kani::concrete_playback_run(concrete_vals, k02_total_word_len6);
}