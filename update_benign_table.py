#!/usr/bin/env python3
"""regenerate the behaviour-preserving-changes table of DESIGN.md from benign/*/ (patch.diff, why.txt, run*.log, note.txt)"""
import glob, os, re
rows = []
for d in sorted(glob.glob('/verif/benign/*/')):
    i = os.path.basename(d.rstrip('/'))
    why = open(d + 'why.txt').read().strip().splitlines()[0][:160] if os.path.exists(d + 'why.txt') else ''
    files = sorted(set(re.findall(r'^\+\+\+ b/(\S+)', open(d + 'patch.diff').read(), re.M)))
    res = []
    for lg in sorted(glob.glob(d + 'run*.log')):
        t = open(lg).read()
        m = re.findall(r'^exit (\d+) wall (\d+)s', t, re.M)
        un = len(re.findall(r'^UNEXPLORED', t, re.M))
        if m:
            res.append("exit %s (%ss)%s" % (m[-1][0], m[-1][1], (", %d group(s) UNEXPLORED" % un) if un else ""))
    note = open(d + 'note.txt').read().strip() if os.path.exists(d + 'note.txt') else ''
    rows.append("| %s | %s | %s | %s | %s |" % (i, ", ".join(f.replace('src/', '') for f in files), why.replace('|', '\\|'), " → ".join(res) or "not run", note.replace('|', '\\|')))
table = "| change | files | what (first line of the author's explanation) | registered quick check | note |\n|---|---|---|---|---|\n" + "\n".join(rows)
p = '/verif/DESIGN.md'; s = open(p).read()
a = s.index('<!-- BENIGN_TABLE_BEGIN -->'); b = s.index('<!-- BENIGN_TABLE_END -->')
s = s[:a] + '<!-- BENIGN_TABLE_BEGIN -->\n' + table + '\n' + s[b:]
open(p, 'w').write(s)
print(len(rows), 'rows')
