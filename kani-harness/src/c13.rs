//! C13 — bit streams and natural numbers code exactly (DESIGN.md §C13).
//!
//! Oracle: bit `p` of a byte string is `data[p/8] >> (7 - p%8) & 1`.
use crate::sink::Sink;
use simplicity::{encode_natural, u2, BitCollector, BitIter, BitWriter};
use simplicity::DecodeNaturalError;

#[inline(always)]
fn refbit(data: &[u8], p: usize) -> bool {
    (data[p / 8] >> (7 - (p % 8))) & 1 == 1
}

/// Reference: the `k` bits starting at bit `p`, big-endian, as an integer.
#[inline(always)]
fn refbits(data: &[u8], p: usize, k: usize) -> u32 {
    let mut v = 0u32;
    let mut i = 0;
    while i < k {
        v = (v << 1) | (refbit(data, p + i) as u32);
        i += 1;
    }
    v
}

// ---------------------------------------------------------------- K13.1
/// Reader: 3 symbolic bytes, symbolic length, 4 operations of symbolic kind.
#[kani::proof]
#[kani::unwind(10)]
fn k13_1_reader_ops() {
    let data: [u8; 3] = kani::any();
    let len: usize = kani::any();
    kani::assume(len <= 3);
    let nbits = 8 * len;
    let mut it = BitIter::from(&data[..len]);
    let mut p = 0usize;
    let mut step = 0;
    while step < 4 {
        let op: u8 = kani::any();
        kani::assume(op < 3);
        match op {
            0 => {
                let r = it.read_bit();
                if p + 1 <= nbits {
                    assert!(r == Ok(refbit(&data, p)));
                    p += 1;
                } else {
                    assert!(r.is_err());
                    assert!(it.n_total_read() == p);
                    kani::cover!(true, "read_bit error reached");
                    return;
                }
            }
            1 => {
                let r = it.read_u2();
                if p + 2 <= nbits {
                    let want = refbits(&data, p, 2) as u8;
                    assert!(r.is_ok());
                    assert!(u8::from(r.unwrap()) == want);
                    p += 2;
                } else {
                    assert!(r.is_err());
                    kani::cover!(true, "read_u2 error reached");
                    return;
                }
            }
            _ => {
                let r = it.read_u8();
                if p + 8 <= nbits {
                    assert!(r == Ok(refbits(&data, p, 8) as u8));
                    p += 8;
                    kani::cover!(p % 8 != 0, "unaligned read_u8");
                } else {
                    assert!(r.is_err());
                    assert!(it.n_total_read() == p);
                    kani::cover!(true, "read_u8 error reached");
                    return;
                }
            }
        }
        assert!(it.n_total_read() == p);
        step += 1;
    }
    kani::cover!(p == 19, "mixed ops crossing two byte boundaries");
    kani::cover!(true, "end reached");
}

// ---------------------------------------------------------------- K13.2
/// Window: 3 symbolic bytes, symbolic `start <= end <= 24`; yields exactly the
/// bits `start..end`.
#[kani::proof]
#[kani::unwind(27)]
fn k13_2_window_bits() {
    let data: [u8; 3] = kani::any();
    let start: usize = kani::any();
    let end: usize = kani::any();
    kani::assume(start <= end && end <= 24);
    let mut it = BitIter::byte_slice_window(&data, start, end);
    let mut k = 0usize;
    while k < 25 {
        let b = it.next();
        if start + k < end {
            assert!(b == Some(refbit(&data, start + k)), "window bit differs from range bit");
            assert!(it.n_total_read() == k + 1);
        } else {
            assert!(b.is_none(), "window yields bits past its end");
            break;
        }
        k += 1;
    }
    kani::cover!(end % 8 != 0 && start % 8 != 0 && end - start > 8, "unaligned both ends");
    kani::cover!(true, "end reached");
}

/// Window, byte reads: `read_u8` inside a window returns the window's next 8
/// bits and fails iff fewer than 8 remain in the range.
#[kani::proof]
#[kani::unwind(10)]
fn k13_2_window_u8() {
    let data: [u8; 3] = kani::any();
    let start: usize = kani::any();
    let end: usize = kani::any();
    kani::assume(start <= end && end <= 24);
    let mut it = BitIter::byte_slice_window(&data, start, end);
    let mut p = start;
    let mut step = 0;
    while step < 4 {
        let r = it.read_u8();
        if p + 8 <= end {
            assert!(r == Ok(refbits(&data, p, 8) as u8));
            p += 8;
            assert!(it.n_total_read() == p - start);
        } else {
            assert!(r.is_err(), "read_u8 succeeds past the window's end");
            break;
        }
        step += 1;
    }
    kani::cover!(p == start + 16 && start % 8 != 0, "two unaligned bytes read");
    kani::cover!(true, "end reached");
}

/// Window, mixed reads: 4 operations of symbolic kind {bit, u2, u8} on a
/// window with symbolic bounds: each returns the window's next bits and fails
/// iff fewer bits than it needs remain *in the window*.
#[kani::proof]
#[kani::unwind(10)]
fn k13_2_window_ops() {
    let data: [u8; 3] = kani::any();
    let start: usize = kani::any();
    let end: usize = kani::any();
    kani::assume(start <= end && end <= 24);
    let mut it = BitIter::byte_slice_window(&data, start, end);
    let mut p = start;
    let mut step = 0;
    while step < 4 {
        let op: u8 = kani::any();
        kani::assume(op < 3);
        let need = if op == 0 { 1 } else if op == 1 { 2 } else { 8 };
        let enough = p + need <= end;
        match op {
            0 => {
                let r = it.read_bit();
                assert!(r.is_ok() == enough, "read_bit ignores the window's end");
                if enough {
                    assert!(r == Ok(refbit(&data, p)));
                }
            }
            1 => {
                let r = it.read_u2();
                assert!(r.is_ok() == enough, "read_u2 ignores the window's end");
                if enough {
                    assert!(u8::from(r.unwrap()) == refbits(&data, p, 2) as u8);
                }
            }
            _ => {
                let r = it.read_u8();
                assert!(r.is_ok() == enough, "read_u8 ignores the window's end");
                if enough {
                    assert!(r == Ok(refbits(&data, p, 8) as u8));
                }
            }
        }
        if !enough {
            assert!(it.n_total_read() <= end - start, "position counter ran past the window");
            kani::cover!(op == 1 && end - p == 1, "read_u2 with one bit left");
            return;
        }
        p += need;
        assert!(it.n_total_read() == p - start, "position counter inconsistent inside a window");
        step += 1;
    }
    kani::cover!(p - start == 19, "mixed reads crossing two byte boundaries");
}

// ---------------------------------------------------------------- K13.3
/// close() succeeds exactly when no unread byte remains and every unread bit
/// of the current byte is zero.
#[kani::proof]
#[kani::unwind(26)]
fn k13_3_close() {
    let data: [u8; 3] = kani::any();
    let len: usize = kani::any();
    kani::assume(len <= 3);
    let consumed: usize = kani::any();
    kani::assume(consumed <= 8 * len);
    let mut it = BitIter::from(&data[..len]);
    let mut i = 0;
    while i < consumed {
        let _ = it.next();
        i += 1;
    }
    // reference: all bits from `consumed` to the end of the *current* byte are
    // zero, and no further byte exists.
    let cur_end = (consumed + 7) / 8 * 8;
    let mut want_ok = cur_end == 8 * len;
    let mut q = consumed;
    while q < cur_end {
        if refbit(&data, q) {
            want_ok = false;
        }
        q += 1;
    }
    let r = it.close();
    assert!(r.is_ok() == want_ok);
    kani::cover!(r.is_ok() && consumed % 8 != 0, "ok with padding");
    kani::cover!(r.is_err() && cur_end == 8 * len, "illegal padding");
    kani::cover!(r.is_err() && cur_end != 8 * len, "trailing bytes");
}

// ---------------------------------------------------------------- K13.4
/// Writer: 4 operations, each `write_bit` or `write_bits_be(v, len<=9)` with
/// symbolic data, then `flush_all`; the sink holds the written bits in order,
/// zero padded to the byte boundary, and the counters agree.
#[kani::proof]
#[kani::unwind(11)]
fn k13_4_writer_ops() {
    let mut sink = Sink::<5>::new();
    let mut acc: u64 = 0; // all written bits, first written = most significant
    let mut n = 0usize;
    {
        let mut w = BitWriter::new(&mut sink);
        let mut step = 0;
        while step < 4 {
            let is_bit: bool = kani::any();
            if is_bit {
                let b: bool = kani::any();
                w.write_bit(b).unwrap();
                acc = (acc << 1) | (b as u64);
                n += 1;
            } else {
                let v: u64 = kani::any();
                let len: usize = kani::any();
                kani::assume(len <= 9);
                let r = w.write_bits_be(v, len).unwrap();
                assert!(r == len);
                acc = (acc << len) | (v & ((1u64 << len) - 1));
                n += len;
            }
            assert!(w.n_total_written() == n);
            step += 1;
        }
        w.flush_all().unwrap();
        assert!(w.n_total_written() == n);
    }
    assert!(sink.len == (n + 7) / 8, "flush_all wrote a wrong number of bytes");
    // a symbolic bit position of the output equals what was written;
    // positions past n up to the byte boundary are zero.
    let q: usize = kani::any();
    kani::assume(q < 8 * sink.len);
    let got = refbit(&sink.buf, q);
    if q < n {
        assert!(got == ((acc >> (n - 1 - q)) & 1 == 1), "written bit differs");
    } else {
        assert!(!got, "padding bit not zero");
    }
    kani::cover!(n == 36, "max written");
    kani::cover!(n % 8 == 3 && n > 16, "unaligned total");
}

/// `io::Write for BitWriter` (byte writes at any alignment, including exactly on
/// a byte boundary with a pending cached byte): k <= 16 bits then 2 bytes
/// written through `io::Write::write` come back shifted by k.
#[kani::proof]
#[kani::unwind(18)]
fn k13_4_writer_bytes() {
    use std::io::Write;
    let mut sink = Sink::<5>::new();
    let k: usize = kani::any();
    kani::assume(k <= 16);
    let lead: u16 = kani::any();
    let bytes: [u8; 2] = kani::any();
    let flush_between: bool = kani::any();
    {
        let mut w = BitWriter::new(&mut sink);
        w.write_bits_be(lead as u64, k).unwrap();
        if flush_between && k % 8 == 0 {
            // flushing on a byte boundary must not change the stream
            w.flush_all().unwrap();
        }
        let r = w.write(&bytes).unwrap();
        assert!(r == 2);
        assert!(w.n_total_written() == k + 16);
        w.flush_all().unwrap();
    }
    assert!(sink.len == (k + 16 + 7) / 8);
    let q: usize = kani::any();
    kani::assume(q < k + 16);
    if q < k {
        assert!(refbit(&sink.buf, q) == ((lead >> (k - 1 - q)) & 1 == 1), "leading bits changed or moved");
    } else {
        assert!(refbit(&sink.buf, q) == refbit(&bytes, q - k), "bytes written through io::Write are out of place");
    }
    kani::cover!(k == 5, "unaligned byte writes");
    kani::cover!(k == 8 && !flush_between, "byte write on a boundary with a pending cached byte");
    kani::cover!(k == 16 && flush_between, "byte write after a flush on a boundary");
}

/// `write_bits_be(v, len)` for every documented length 0..=64 at every
/// alignment (0..7 leading bits): exactly the `len` low bits of `v`, most
/// significant first.
#[kani::proof]
#[kani::unwind(67)]
fn k13_4_write_bits_be_wide() {
    let mut sink = Sink::<10>::new();
    let k: usize = kani::any();
    kani::assume(k <= 7);
    let lead: u8 = kani::any();
    let v: u64 = kani::any();
    let len: usize = kani::any();
    kani::assume(len <= 64);
    {
        let mut w = BitWriter::new(&mut sink);
        w.write_bits_be(lead as u64, k).unwrap();
        let r = w.write_bits_be(v, len).unwrap();
        assert!(r == len, "write_bits_be reports a wrong number of written bits");
        assert!(w.n_total_written() == k + len, "position counter wrong after write_bits_be");
        w.flush_all().unwrap();
    }
    assert!(sink.len == (k + len + 7) / 8, "write_bits_be wrote a wrong number of bytes");
    kani::cover!(len == 64 && k == 3, "full 64-bit write at an unaligned position");
    kani::cover!(len == 0, "zero-length write");
    let q: usize = kani::any();
    kani::assume(q < len);
    assert!(refbit(&sink.buf, k + q) == ((v >> (len - 1 - q)) & 1 == 1), "write_bits_be wrote a wrong bit");
}

/// `collect_bits`: the first `nb <= 16` bits of 2 symbolic bytes are collected
/// into ceil(nb/8) bytes with zero padding and the exact bit count.
#[kani::proof]
#[kani::unwind(18)]
fn k13_4_collect_bits() {
    let data: [u8; 2] = kani::any();
    let nb: usize = kani::any();
    kani::assume(nb <= 16);
    let (v, got_nb) = BitIter::from(&data[..]).take(nb).collect_bits();
    assert!(got_nb == nb);
    assert!(v.len() == (nb + 7) / 8);
    let q: usize = kani::any();
    kani::assume(q < 8 * v.len());
    let bit = refbit(&v, q);
    if q < nb {
        assert!(bit == refbit(&data, q));
    } else {
        assert!(!bit, "collect_bits padding not zero");
    }
    kani::cover!(nb == 11, "partial last byte");
    std::mem::forget(v);
}

// ---------------------------------------------------------------- K13.5
fn nat_encode(n: usize, sink: &mut Sink<8>) -> usize {
    let mut w = BitWriter::new(sink);
    let written = encode_natural(n, &mut w).unwrap();
    assert!(written == w.n_total_written());
    w.flush_all().unwrap();
    written
}

macro_rules! nat_roundtrip {
    ($name:ident, $lo:expr, $hi:expr, $unw:expr) => {
        /// encoder -> decoder, `n` symbolic in [$lo, $hi), result type u32, with
        /// and without a symbolic bound.
        #[kani::proof]
        #[kani::unwind($unw)]
        fn $name() {
            let n: usize = kani::any();
            kani::assume(n >= $lo && n < $hi);
            let mut sink = Sink::<8>::new();
            let written = nat_encode(n, &mut sink);
            assert!(sink.len == (written + 7) / 8);
            let mut it = BitIter::from(&sink.buf[..sink.len]);
            let use_bound: bool = kani::any();
            if use_bound {
                let bound: u32 = kani::any();
                let r = it.read_natural::<u32>(Some(bound));
                if n as u64 <= bound as u64 {
                    assert!(r == Ok(n as u32), "in-bound natural does not round-trip");
                    assert!(it.n_total_read() == written);
                } else {
                    match r {
                        Err(DecodeNaturalError::BadIndex { got, max }) => {
                            assert!(got == n && max == bound as usize);
                        }
                        _ => panic!("out-of-bound natural not rejected with BadIndex"),
                    }
                    kani::cover!(true, "bound exceeded");
                }
            } else {
                let r = it.read_natural::<u32>(None);
                assert!(r == Ok(n as u32), "natural does not round-trip");
                assert!(
                    it.n_total_read() == written,
                    "decoder consumed a different number of bits"
                );
                assert!(it.close().is_ok(), "padding after natural not zero");
                kani::cover!(true, "unbounded ok");
            }
        }
    };
}

// quick tier: [1, 2^12); thorough: [1, 2^16) and [2^16, 2^32) complete the u32 range
nat_roundtrip!(k13_5_nat_roundtrip_u12range, 1, 1usize << 12, 14);
nat_roundtrip!(k13_5_nat_roundtrip_u16range, 1, 1usize << 16, 18);
nat_roundtrip!(k13_5_nat_roundtrip_u32range, 1usize << 16, 1usize << 32, 34);

/// Narrow result type: `read_natural::<u16>` of n in [1, 2^17) is Ok(n) iff
/// n <= u16::MAX, else Overflow ("rejected rather than truncated").
#[kani::proof]
#[kani::unwind(19)]
fn k13_5_nat_u16_result() {
    let n: usize = kani::any();
    kani::assume(n >= 1 && n < (1usize << 17));
    let mut sink = Sink::<8>::new();
    let written = nat_encode(n, &mut sink);
    let mut it = BitIter::from(&sink.buf[..sink.len]);
    let r = it.read_natural::<u16>(None);
    if n <= u16::MAX as usize {
        assert!(r == Ok(n as u16));
        assert!(it.n_total_read() == written);
    } else {
        assert!(matches!(r, Err(DecodeNaturalError::Overflow)), "truncated instead of rejected");
        kani::cover!(true, "overflow reached");
    }
}

/// usize result type over the same quick range (the type `decode_expression` uses).
#[kani::proof]
#[kani::unwind(18)]
fn k13_5_nat_usize_result() {
    let n: usize = kani::any();
    kani::assume(n >= 1 && n < (1usize << 16));
    let mut sink = Sink::<8>::new();
    let written = nat_encode(n, &mut sink);
    let mut it = BitIter::from(&sink.buf[..sink.len]);
    let bound: usize = kani::any();
    let r = it.read_natural::<usize>(Some(bound));
    if n <= bound {
        assert!(r == Ok(n));
        assert!(it.n_total_read() == written);
    } else {
        assert!(matches!(r, Err(DecodeNaturalError::BadIndex { .. })));
    }
}

/// Numbers the encoder accepts on a 64-bit host but that exceed 32 bits are
/// rejected by the decoder, never truncated: n in [2^32, 2^34).
#[kani::proof]
#[kani::unwind(36)]
fn k13_5_nat_too_large_rejected() {
    let n: usize = kani::any();
    kani::assume(n >= (1usize << 32) && n < (1usize << 34));
    let mut sink = Sink::<8>::new();
    let _ = nat_encode(n, &mut sink);
    let mut it = BitIter::from(&sink.buf[..sink.len]);
    let r = it.read_natural::<u32>(None);
    assert!(matches!(r, Err(DecodeNaturalError::Overflow)), "too-large natural not rejected");
    let mut it = BitIter::from(&sink.buf[..sink.len]);
    let r = it.read_natural::<usize>(None);
    assert!(matches!(r, Err(DecodeNaturalError::Overflow)), "too-large natural not rejected (usize)");
}

// ---------------------------------------------------------------- K13.6
/// Decoder canonicity on arbitrary strings: `NB` symbolic bytes whose unary
/// prefix has exactly `K` ones. If decoding succeeds, re-encoding the number
/// reproduces exactly the consumed bits. Returns 0 = decoded, 1 = end of
/// stream, 2 = overflow.
fn nat_canonical<const NB: usize>(k: usize) -> u8 {
    let data: [u8; NB] = kani::any();
    // unary prefix: bits 0..k are 1, bit k is 0
    let mut i = 0;
    while i < k {
        kani::assume(refbit(&data, i));
        i += 1;
    }
    kani::assume(!refbit(&data, k));
    // contract used by C02 (k02_decode_node_total): with a bound, Ok(n) implies 1 <= n <= bound,
    // and the bound only ever turns an Ok into BadIndex
    {
        let bound: u32 = kani::any();
        let mut itb = BitIter::from(&data[..]);
        let rb = itb.read_natural::<u32>(Some(bound));
        let mut itn = BitIter::from(&data[..]);
        let rn = itn.read_natural::<u32>(None);
        match (&rb, &rn) {
            (Ok(a), Ok(b)) => assert!(*a == *b && *a >= 1 && *a <= bound, "bounded decode accepted a number above its bound"),
            (Err(DecodeNaturalError::BadIndex { got, max }), Ok(b)) => {
                assert!(*b > bound && *got == *b as usize && *max == bound as usize, "BadIndex for a number within the bound")
            }
            (Err(_), Err(_)) => {}
            _ => panic!("a bound changed the outcome in an unexpected way"),
        }
    }
    let mut it = BitIter::from(&data[..]);
    match it.read_natural::<u32>(None) {
        Ok(n) => {
            assert!(n >= 1);
            assert!(k <= 4, "prefix of >= 5 ones decoded to a 32-bit number");
            let used = it.n_total_read();
            let mut sink = Sink::<8>::new();
            let written = nat_encode(n as usize, &mut sink);
            assert!(written == used, "re-encoding has a different length");
            let q: usize = kani::any();
            kani::assume(q < used);
            assert!(
                refbit(&sink.buf, q) == refbit(&data, q),
                "re-encoding differs from the decoded string"
            );
            0
        }
        Err(DecodeNaturalError::EndOfStream(_)) => 1,
        Err(DecodeNaturalError::Overflow) => 2,
        Err(_) => panic!("BadIndex (or unknown error) without a bound"),
    }
}

#[kani::proof]
#[kani::unwind(5)]
fn k13_6_canon_k0() {
    let r = nat_canonical::<3>(0);
    assert!(r == 0);
    kani::cover!(r == 0, "decoded");
}
#[kani::proof]
#[kani::unwind(5)]
fn k13_6_canon_k1() {
    let r = nat_canonical::<3>(1);
    assert!(r == 0);
    kani::cover!(r == 0, "decoded");
}
#[kani::proof]
#[kani::unwind(5)]
fn k13_6_canon_k2() {
    let r = nat_canonical::<3>(2);
    assert!(r == 0);
    kani::cover!(r == 0, "decoded");
}
/// k = 3: 4 bytes hold every 16-bit natural (4+1+2+3..+15 <= 25 bits); none overflows.
#[kani::proof]
#[kani::unwind(5)]
fn k13_6_canon_k3() {
    let r = nat_canonical::<4>(3);
    assert!(r == 0);
    kani::cover!(r == 0, "decoded");
}
/// k = 4: 6 bytes hold every 32-bit natural; lengths 16..=31 decode, 32.. overflow.
#[kani::proof]
#[kani::unwind(5)]
fn k13_6_canon_k4() {
    let r = nat_canonical::<6>(4);
    kani::cover!(r == 0, "decoded");
    kani::cover!(r == 2, "overflow (length > 31)");
}
/// k >= 5 can only overflow or run out of bits.
#[kani::proof]
#[kani::unwind(5)]
fn k13_6_canon_k5() {
    let r = nat_canonical::<6>(5);
    assert!(r != 0);
    kani::cover!(r == 2, "overflow");
}
#[kani::proof]
#[kani::unwind(5)]
fn k13_6_canon_k6() {
    let r = nat_canonical::<6>(6);
    assert!(r != 0);
    kani::cover!(r != 0, "rejected");
}

/// k = 5 on 7 bytes with the third-level field restricted to 4..=5 (so that a
/// fourth-level length field of up to 63 fits in the string): lengths above 31
/// must be rejected where they are read, never carried on and truncated.
#[kani::proof]
#[kani::unwind(5)]
fn k13_6_canon_k5_wide() {
    let data: [u8; 7] = kani::any();
    let mut i = 0;
    while i < 5 {
        kani::assume(refbit(&data, i));
        i += 1;
    }
    kani::assume(!refbit(&data, 5));
    // level 2 (1 bit) = 0 -> n2 = 2; level 3 (2 bits) in {00, 01} -> n3 in {4, 5}
    kani::assume(!refbit(&data, 6));
    kani::assume(!refbit(&data, 7));
    let mut it = BitIter::from(&data[..]);
    let r = it.read_natural::<u32>(None);
    assert!(r.is_err(), "a five-deep length prefix decoded to a number");
    // n4 has 5 or 6 bits: values above 31 are rejected right after they are read
    let n4_bits = if refbit(&data, 8) { 5 } else { 4 };
    kani::cover!(n4_bits == 5 && refbit(&data, 9), "fourth-level length field above 31");
    std::mem::forget(r);
}
