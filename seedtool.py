#!/usr/bin/env python3
"""seedtool.py confirm <id> <patch> <demo.rs> : in a scratch worktree of /repo confirm that the
patch applies, the existing suite passes with it, and the demo (an integration test) fails with
it and passes without it. Prints a JSON summary.
seedtool.py run <id> <prop> [tier] : apply /verif/seeded/<id>/patch.diff to /repo, run the check, undo."""
import json, os, shutil, subprocess, sys, tempfile, time
ENV = dict(os.environ, CARGO_NET_OFFLINE="true")


def sh(cmd, cwd=None, timeout=3600):
    p = subprocess.run(cmd, cwd=cwd, env=ENV, shell=isinstance(cmd, str), stdout=subprocess.PIPE, stderr=subprocess.STDOUT, text=True, timeout=timeout)
    return p.returncode, p.stdout


def confirm(sid, patch, demo):
    patch, demo = os.path.abspath(patch), os.path.abspath(demo)
    wt = tempfile.mkdtemp(prefix="seedwt.", dir="/tmp")
    os.rmdir(wt)
    res = {"id": sid}
    try:
        rc, out = sh(["git", "-C", "/repo", "worktree", "add", "-q", "--detach", wt, "HEAD"])
        assert rc == 0, out
        os.makedirs(os.path.join(wt, "tests"), exist_ok=True)
        shutil.copy(demo, os.path.join(wt, "tests", "seed_demo.rs"))
        tgt = os.path.join(wt, "target")
        rc, out = sh("cargo test --offline --test seed_demo 2>&1 | tail -15", cwd=wt)
        res["demo_without_patch_passes"] = "test result: ok" in out and "FAILED" not in out
        res["demo_without_tail"] = out[-600:]
        rc, out = sh(["git", "apply", patch], cwd=wt)
        res["patch_applies"] = rc == 0
        rc, out = sh("cargo test --offline --test seed_demo 2>&1 | tail -25", cwd=wt)
        res["demo_with_patch_fails"] = "FAILED" in out or "panicked" in out
        res["demo_with_tail"] = out[-900:]
        os.remove(os.path.join(wt, "tests", "seed_demo.rs"))
        rc, out = sh("cargo test --workspace --offline 2>&1 | grep -E '^test result|^error' | head -20", cwd=wt)
        res["suite_passes_with_patch"] = "FAILED" not in out and "error" not in out and out.count("test result: ok") >= 5
        res["suite_tail"] = out[-500:]
    finally:
        sh(["git", "-C", "/repo", "worktree", "remove", "--force", wt])
        shutil.rmtree(wt, ignore_errors=True)
    print(json.dumps(res, indent=1))
    return res


def run(sid, prop, tier="quick"):
    d = os.path.join("/verif/seeded", sid)
    rc, out = sh(["git", "-C", "/repo", "status", "--porcelain"])
    assert out.strip() == "", "/repo not clean: " + out
    rc, out = sh(["git", "-C", "/repo", "apply", os.path.join(d, "patch.diff")])
    assert rc == 0, out
    t0 = time.time()
    try:
        rc, out = sh(["python3-vt", "/verif/vcheck.py", prop, "--tier", tier], cwd="/verif", timeout=4 * 3600)
    finally:
        sh(["git", "-C", "/repo", "checkout", "--", "."])
    lines = [l for l in out.splitlines() if l.startswith(("VIOLATION", "KNOWN-FINDING", "INCONCLUSIVE", "NON-REPRODUCING", "UNEXPLORED", "[" + prop)) or "violated" in l or " failed " in l]
    print("\n".join(l[:300] for l in lines[-25:]))
    print("exit", rc, "wall %.0fs" % (time.time() - t0))
    return rc, out


def run_copy(sid, prop, tier="quick", only=None):
    """like `run` but on a scratch worktree of /repo (so /repo itself stays untouched and several
    seeds can be tried at the same time); uses VERIF_REPO + its own VERIF_WORK"""
    d = os.path.join("/verif/seeded", sid)
    if not os.path.isdir(d):
        d = os.path.join("/verif/benign", sid)   # behaviour-preserving changes (false-alarm test)
    wt = "/tmp/seedrun." + sid
    sh(["git", "-C", "/repo", "worktree", "remove", "--force", wt])
    rc, out = sh(["git", "-C", "/repo", "worktree", "add", "-q", "--detach", wt, "HEAD"])
    assert rc == 0, out
    try:
        rc, out = sh(["git", "apply", os.path.join(d, "patch.diff")], cwd=wt)
        assert rc == 0, out
        env = dict(ENV, VERIF_REPO=wt, VERIF_WORK="/tmp/seedwork." + sid)
        t0 = time.time()
        p = subprocess.run(["python3-vt", "/verif/vcheck.py", prop, "--tier", tier] + (["--only", only] if only else []), cwd="/verif", env=env,
                           stdout=subprocess.PIPE, stderr=subprocess.STDOUT, text=True, timeout=4 * 3600)
        out, rc = p.stdout, p.returncode
    finally:
        sh(["git", "-C", "/repo", "worktree", "remove", "--force", wt])
        shutil.rmtree("/tmp/seedwork." + sid, ignore_errors=True)
    lines = [l for l in out.splitlines() if l.startswith(("VIOLATION", "KNOWN-FINDING", "INCONCLUSIVE", "NON-REPRODUCING", "UNEXPLORED", "[" + prop)) or "violated" in l or " failed " in l]
    print("\n".join(l[:300] for l in lines[-25:]))
    print("exit", rc, "wall %.0fs" % (time.time() - t0))


if __name__ == "__main__":
    if sys.argv[1] == "runcopy":
        run_copy(*sys.argv[2:])
        sys.exit(0)
    if sys.argv[1] == "confirm":
        confirm(*sys.argv[2:5])
    else:
        run(*sys.argv[2:])
