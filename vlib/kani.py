"""Engine K: drive Kani's compiler + CBMC over the harness crate (DESIGN.md 1.1).

Pipeline per run:
  1. `cargo kani --only-codegen --harness <prefix>` builds /repo (working tree,
     feature verif-hooks) and the harness crate and emits one goto binary per
     harness;
  2. per harness (in parallel): goto-cc --function, the three goto-instrument
     passes Kani's own driver runs, `cbmc --show-loops` to resolve unwindset
     rules (keyed on demangled function names) to loop labels, then cbmc with
     Kani's flag set, unwinding assertions on, JSON output;
  3. classification: SUCCESS / property failure / unwinding failure
     (inconclusive) / timeout / out of memory (inconclusive);
  4. failures are replayed natively through Kani's concrete playback.
"""
import glob
import json
import os
import re
import resource
import shutil
import subprocess
import tempfile
import threading
import time
from concurrent.futures import ThreadPoolExecutor

VERIF = os.path.dirname(os.path.dirname(os.path.abspath(__file__)))
HARNESS_CRATE = os.path.join(VERIF, "kani-harness")
WORK = os.environ.get("VERIF_WORK", os.path.join(VERIF, ".work"))
TARGET = os.path.join(WORK, "kani-target")
KANI_LIB_C = os.path.expanduser("~/.kani/kani-0.68.0/library/kani/kani_lib.c")

CBMC_FLAGS = [
    "--no-malloc-may-fail", "--no-undefined-shift-check", "--no-signed-overflow-check",
    "--nan-check", "--no-self-loops-to-assumptions", "--no-pointer-primitive-check",
    "--object-bits", "16", "--sat-solver", "cadical", "--slice-formula",
    "--unwinding-assertions",
]

ENV = dict(os.environ, CARGO_NET_OFFLINE="true")


class Harness:
    """One proof harness and how to bound it.

    unwindset: list of (function_regex, which, bound) where `which` is a loop
    index (int), '*' for every loop of matching functions, or 'rec' for the
    recursion bound of matching functions.
    """

    def __init__(self, name, tiers=("quick", "thorough"), unwind=None, unwindset=(),
                 timeout=600, mem_gb=8, core=True, note="", stubs=False,
                 allow_unsat_covers=(), admit_gb=None):
        self.name = name
        self.tiers = tiers
        self.unwind = unwind
        self.unwindset = list(unwindset)
        self.timeout = timeout
        self.mem_gb = mem_gb          # hard limit (RLIMIT_AS) of the cbmc process
        self.admit_gb = admit_gb      # measured peak used for admission (default: the hard limit)
        self.core = core
        self.note = note
        self.stubs = stubs
        self.allow_unsat_covers = set(allow_unsat_covers)


def _run(cmd, timeout=None, mem_gb=None, cwd=None, stdout=None):
    def pre():
        os.setsid()
        if mem_gb:
            lim = int(mem_gb * (1 << 30))
            resource.setrlimit(resource.RLIMIT_AS, (lim, lim))
    t0 = time.time()
    p = subprocess.Popen(cmd, cwd=cwd, env=ENV, stdout=stdout or subprocess.PIPE,
                         stderr=subprocess.STDOUT if stdout is None else subprocess.PIPE,
                         preexec_fn=pre, text=True)
    try:
        out, err = p.communicate(timeout=timeout)
        to = False
    except subprocess.TimeoutExpired:
        try:
            os.killpg(p.pid, 9)
        except ProcessLookupError:
            pass
        out, err = p.communicate()
        to = True
    return p.returncode, out, err, to, time.time() - t0


_lock_fd = None


def lock_work():
    """serialise vcheck runs that share one work directory"""
    global _lock_fd
    import fcntl
    os.makedirs(WORK, exist_ok=True)
    _lock_fd = open(os.path.join(WORK, "lock"), "w")
    fcntl.flock(_lock_fd, fcntl.LOCK_EX)


def crate_for_repo(src_crate, name):
    """The registered checks build against /repo. For experiments against a scratch copy of the
    repository (VERIF_REPO=<dir>), build from a copy of the crate whose path dependency points there."""
    repo = os.environ.get("VERIF_REPO")
    if not repo or os.path.abspath(repo) == "/repo":
        return src_crate
    dst = os.path.join(WORK, "crate-copy-" + name)
    shutil.rmtree(dst, ignore_errors=True)
    shutil.copytree(src_crate, dst, ignore=shutil.ignore_patterns("target"))
    ct = os.path.join(dst, "Cargo.toml")
    t = open(ct).read().replace('path = "/repo"', 'path = "%s"' % os.path.abspath(repo))
    t = t.replace('path = "../vendor/', 'path = "%s/' % os.path.join(VERIF, "vendor"))
    open(ct, "w").write(t)
    return dst


def codegen(filters, stubbing=True, log=None):
    """Build /repo + harness crate with the Kani compiler; return {harness: info}."""
    os.makedirs(TARGET, exist_ok=True)
    # remove stale per-build output dirs of the harness crate so that we pick
    # up exactly what this build produced
    for d in glob.glob(os.path.join(TARGET, "kani", "*", "debug", "build", "vharness", "*")):
        shutil.rmtree(d, ignore_errors=True)
    cmd = ["cargo", "kani", "--only-codegen", "--target-dir", TARGET]
    if stubbing:
        cmd += ["-Z", "stubbing"]
    for f in filters:
        cmd += ["--harness", f]
    t0 = time.time()
    rc, out, _, to, _ = _run(cmd, timeout=3600, cwd=crate_for_repo(HARNESS_CRATE, "kani"))
    if log:
        with open(log, "w") as f:
            f.write(out or "")
    if rc != 0 or to:
        tail = "\n".join((out or "").splitlines()[-60:])
        raise RuntimeError("kani codegen failed (rc=%s timeout=%s):\n%s" % (rc, to, tail))
    found = {}
    for md in glob.glob(os.path.join(TARGET, "kani", "*", "debug", "build", "vharness", "*", "out",
                                     "*.kani-metadata.json")):
        m = json.load(open(md))
        for h in m.get("proof_harnesses", []):
            name = h["pretty_name"].split("::")[-1]
            goto = h["goto_file"]
            outf = goto.replace(".symtab.out", ".out")
            found[name] = {
                "pretty": h["pretty_name"], "mangled": h["mangled_name"],
                "out": outf, "unwind": h["attributes"].get("unwind_value"),
                "stubs": h["attributes"].get("stubs", []),
                "file": h.get("original_file"), "line": h.get("original_start_line"),
            }
    return found, time.time() - t0


_LOOP_RE = re.compile(r"^Loop (\S+):\n\s+file (.*?) line (\d+)(?: column \d+)? function (.*)$", re.M)


def prepare(info, workdir):
    """goto-cc --function + Kani's goto-instrument passes -> final goto binary."""
    base = os.path.join(workdir, "h")
    steps = [
        ["goto-cc", info["out"], "--function", info["mangled"], "-o", base + "1.out"],
        ["goto-instrument", "--add-library", "--no-malloc-may-fail", base + "1.out", base + "2.out"],
        ["goto-instrument", "--generate-function-body-options", "assert-false-assume-false",
         "--generate-function-body", ".*", "--drop-unused-functions", base + "2.out", base + "3.out"],
        ["goto-instrument", "--ensure-one-backedge-per-target", base + "3.out", base + "4.out"],
    ]
    for s in steps:
        rc, out, _, to, _ = _run(s, timeout=2400)
        if rc != 0 or to:
            raise RuntimeError("%s failed: %s" % (s[0], (out or "")[-2000:]))
    return base + "4.out"


def loops_of(gotobin):
    rc, out, _, _, _ = _run(["cbmc", "--show-loops", gotobin], timeout=600)
    return [(m.group(1), m.group(4).strip(), int(m.group(3))) for m in _LOOP_RE.finditer(out or "")]


def functions_of(gotobin):
    """mangled -> pretty for every function with a body (for recursion rules)."""
    rc, out, _, _, _ = _run(["goto-instrument", "--list-goto-functions", "--json-ui", gotobin], timeout=600)
    res = []
    try:
        start = out.index("[")
        data = json.loads(out[start:])
        for x in data:
            if isinstance(x, dict) and "functions" in x:
                for f in x["functions"]:
                    if f.get("isBodyAvailable"):
                        res.append(f["name"])
    except (ValueError, KeyError):
        pass
    return res


def resolve_unwindset(h, info, gotobin, pretty_map):
    """Turn regex rules into --unwindset labels. Returns (labels, report)."""
    labels, report = [], []
    if not h.unwindset:
        return labels, report
    loops = loops_of(gotobin)
    funcs = None
    # "fallback" rules come last: they give a bound to loops of the matching functions that no
    # other rule has named (e.g. a loop that a refactoring moved into a new helper function)
    rules = [x for x in h.unwindset if x[1] != "fallback"] + [x for x in h.unwindset if x[1] == "fallback"]
    for (rx, which, bound) in rules:
        r = re.compile(rx)
        hit = 0
        if which == "fallback":
            named = set(l.rsplit(":", 1)[0] for l in labels)
            for (label, fn, line) in loops:
                if r.search(fn) and label not in named:
                    labels.append("%s:%d" % (label, bound))
                    report.append({"rule": rx, "kind": "loop (fallback)", "function": fn, "line": line, "bound": bound})
                    hit += 1
            continue
        if which == "rec":
            if funcs is None:
                funcs = functions_of(gotobin)
            for mangled in funcs:
                pretty = pretty_map.get(mangled, mangled)
                if r.search(pretty):
                    labels.append("%s:%d" % (mangled, bound))
                    report.append({"rule": rx, "kind": "recursion", "function": pretty, "bound": bound})
                    hit += 1
        elif isinstance(which, tuple) and which[0] == "rank":
            # k-th loop of the function in *source line* order (stable under CBMC renumbering)
            per_fn = {}
            for (label, fn, line) in loops:
                if r.search(fn):
                    per_fn.setdefault(fn, []).append((line, label))
            for fn, lst in per_fn.items():
                lst.sort()
                if which[1] < len(lst):
                    line, label = lst[which[1]]
                    labels.append("%s:%d" % (label, bound))
                    report.append({"rule": rx, "kind": "loop", "function": fn, "line": line,
                                   "rank": which[1], "bound": bound})
                    hit += 1
        else:
            for (label, fn, line) in loops:
                idx = int(label.rsplit(".", 1)[1])
                if r.search(fn) and (which == "*" or which == idx):
                    labels.append("%s:%d" % (label, bound))
                    report.append({"rule": rx, "kind": "loop", "function": fn, "line": line,
                                   "index": idx, "bound": bound})
                    hit += 1
        if hit == 0:
            report.append({"rule": rx, "kind": "unmatched", "bound": bound})
    return labels, report


def load_pretty_map(info):
    p = info["out"].replace(".out", ".pretty_name_map.json")
    try:
        raw = json.load(open(p))
        # map: mangled -> pretty (values may be null)
        return {k: (v or k) for k, v in raw.items()}
    except Exception:
        return {}


def classify(json_text):
    """Parse cbmc --json-ui output."""
    res = {"checks": 0, "failed": [], "unwind_failed": [], "covers_sat": [], "covers_unsat": [],
           "unsupported_reachable": [], "status": None, "vars": None, "clauses": None,
           "solver_s": 0.0, "errors": []}
    try:
        data = json.loads(json_text)
    except Exception as e:
        res["errors"].append("json parse: %s" % e)
        return res
    for x in data:
        if not isinstance(x, dict):
            continue
        if "messageText" in x:
            t = x["messageText"]
            m = re.search(r"(\d+) variables, (\d+) clauses", t)
            if m:
                res["vars"] = max(res["vars"] or 0, int(m.group(1)))
                res["clauses"] = max(res["clauses"] or 0, int(m.group(2)))
            m = re.search(r"Runtime Solver: ([0-9.e+-]+)s", t)
            if m:
                res["solver_s"] += float(m.group(1))
            if "Running propositional reduction" in t:
                res["queries"] = res.get("queries", 0) + 1
            if x.get("messageType") == "ERROR":
                res["errors"].append(t[:300])
        if "cProverStatus" in x:
            res["status"] = x["cProverStatus"]
        if "result" in x:
            for p in x["result"]:
                cls = p.get("sourceLocation", {}).get("propertyClass") or ""
                name = p.get("property", "")
                desc = re.sub(r"^\[KANI_CHECK_ID_[^\]]*\]\s*", "", p.get("description", ""))
                st = p.get("status")
                loc = p.get("sourceLocation", {})
                where = "%s:%s" % (loc.get("file", "?"), loc.get("line", "?"))
                item = {"property": name, "description": desc, "where": where,
                        "function": loc.get("function", "")}
                if cls == "reachability_check" or ".reachability_check." in name:
                    continue
                if cls == "cover" or ".cover." in name:
                    (res["covers_sat"] if st == "FAILURE" else res["covers_unsat"]).append(item)
                    continue
                res["checks"] += 1
                if st == "FAILURE":
                    if cls in ("unwind",) or ".unwind." in name or ".recursion" in name \
                            or "unwinding assertion" in desc or "recursion unwinding" in desc:
                        res["unwind_failed"].append(item)
                    elif "not currently supported by Kani" in desc or cls == "unsupported_construct":
                        res["unsupported_reachable"].append(item)
                    else:
                        res["failed"].append(item)
    return res


def verify_one(h, info, tier_workdir, extra_unwind=None):
    wd = tempfile.mkdtemp(prefix=h.name + ".", dir=tier_workdir)
    r = {"harness": h.name, "pretty": info["pretty"], "core": h.core, "note": h.note}
    t0 = time.time()
    try:
        gb = prepare(info, wd)
        pm = load_pretty_map(info) if any(w == "rec" for (_, w, _) in h.unwindset) else {}
        labels, report = resolve_unwindset(h, info, gb, pm)
        unwind = h.unwind if h.unwind is not None else info["unwind"]
        cmd = ["cbmc"] + CBMC_FLAGS
        if unwind is not None:
            cmd += ["--unwind", str(unwind)]
        if labels:
            cmd += ["--unwindset", ",".join(labels)]
        cmd += [gb, "--verbosity", "9", "--json-ui"]
        r["unwind"] = unwind
        r["unwindset"] = report
        r["_labels"] = labels
        outp = os.path.join(wd, "cbmc.json")
        with open(outp, "w") as f:
            rc, _, err, to, secs = _run(cmd, timeout=h.timeout, mem_gb=h.mem_gb, stdout=f)
        r["cbmc_s"] = round(secs, 2)
        r["cbmc_rc"] = rc
        txt = open(outp).read()
        c = classify(txt) if not to else None
        if to:
            r["verdict"] = "timeout"
        elif c["status"] is None:
            r["verdict"] = "error"
            r["detail"] = (c["errors"] + [(err or "")[-500:], txt[-500:]])
        else:
            r.update({k: c.get(k) for k in ("checks", "vars", "clauses", "solver_s", "queries")})
            r["covers_sat"] = [x["description"] for x in c["covers_sat"]]
            unsat = [x["description"] for x in c["covers_unsat"] if x["description"] not in h.allow_unsat_covers]
            r["covers_unsat"] = unsat
            r["failed"] = c["failed"]
            r["unwind_failed"] = c["unwind_failed"][:5]
            r["unsupported_reachable"] = c["unsupported_reachable"][:5]
            if c["errors"] and not c["failed"]:
                # e.g. the SAT solver ran out of memory: nothing it reported can be trusted
                r["verdict"] = "error"
                r["detail"] = c["errors"][:3]
            elif c["failed"]:
                r["verdict"] = "failed"
            elif c["unwind_failed"]:
                r["verdict"] = "unwind_too_small"
            elif c["unsupported_reachable"]:
                r["verdict"] = "unsupported"
            elif unsat:
                r["verdict"] = "vacuous"
            elif c["checks"] > 0 and not c["errors"]:
                r["verdict"] = "ok"
            else:
                r["verdict"] = "error"
                r["detail"] = c["errors"]
        r["cbmc_args"] = [a for a in cmd if not a.endswith(".out")]
    except Exception as e:  # tool failure = inconclusive, never a pass
        r["verdict"] = "error"
        r["detail"] = str(e)[-1500:]
    r["wall_s"] = round(time.time() - t0, 2)
    shutil.rmtree(wd, ignore_errors=True)
    return r


def run_harnesses(harnesses, found, jobs=8, progress=None):
    wd = os.path.join(WORK, "runs")
    os.makedirs(wd, exist_ok=True)
    results = []
    lock = threading.Lock()
    # memory-aware admission: the sum of the admitted harnesses' memory budgets stays below
    # VERIF_MEM_GB (default 52 of the 62 GB), so that no run is shot by the kernel's OOM killer
    budget = float(os.environ.get("VERIF_MEM_GB", "52"))
    cv = threading.Condition()
    state = {"used": 0.0}
    # optional (non-core) harnesses are only started within VERIF_OPTIONAL_DEADLINE_S seconds of
    # the start of the run (default 3 h); later ones are reported as not explored
    t_start = time.time()
    deadline = float(os.environ.get("VERIF_OPTIONAL_DEADLINE_S", "10800"))
    harnesses = sorted(harnesses, key=lambda h: (not h.core))   # core first (stable)

    def one(h):
        need = min(float(h.admit_gb or h.mem_gb or 8), budget)
        with cv:
            while state["used"] + need > budget + 1e-9:
                cv.wait()
            state["used"] += need
        try:
            if not h.core and time.time() - t_start > deadline:
                r = {"harness": h.name, "verdict": "skipped", "detail": "optional harness not started: the run's deadline for optional harnesses (%.0f s) had passed" % deadline,
                     "core": False, "wall_s": 0.0}
                with lock:
                    results.append(r)
                    if progress:
                        progress(r)
                return r
            return _one(h)
        finally:
            with cv:
                state["used"] -= need
                cv.notify_all()

    def _one(h):
        if h.name not in found:
            r = {"harness": h.name, "verdict": "error", "detail": "harness not produced by codegen",
                 "core": h.core}
        else:
            r = verify_one(h, found[h.name], wd)
        with lock:
            results.append(r)
            if progress:
                progress(r)
        return r

    with ThreadPoolExecutor(max_workers=jobs) as ex:
        list(ex.map(one, harnesses))
    return results


def _quiet(out):
    """drop rustc warning blocks from a build log"""
    keep, skip = [], False
    for ln in (out or "").splitlines():
        if ln.startswith("warning"):
            skip = True
            continue
        if skip and (ln.startswith((" ", "\t")) or ln.strip() == "" or re.match(r"^\d* *\|", ln)):
            continue
        skip = False
        if ln.startswith("Check ") or ln.startswith("\t - "):
            continue
        keep.append(ln)
    return "\n".join(keep)


# ---------------------------------------------------------------- replay
_TEST_RE = re.compile(r"(#\[test\]\s*\nfn kani_concrete_playback_[\s\S]*?\n}\n)")


def playback(h, info, resolved_labels_cmd, outdir):
    """Re-run the failing harness through Kani's concrete playback and execute
    the generated unit test natively (dev and release) against /repo.

    Returns dict(reproduced_dev, reproduced_release, test_path, log).
    """
    os.makedirs(outdir, exist_ok=True)
    scratch = tempfile.mkdtemp(prefix="vreplay.", dir=os.environ.get("VERIF_SCRATCH", "/tmp"))
    res = {"reproduced_dev": None, "reproduced_release": None, "test_path": None, "log": ""}
    _keep = res
    # the counterexample is extracted in the crate directory the goto binaries were built from
    # (same crate hash => the resolved unwindset labels stay valid); its sources are saved and
    # restored, the generated test then runs natively in a scratch copy
    build_crate = crate_for_repo(HARNESS_CRATE, "kani") if os.environ.get("VERIF_REPO") else HARNESS_CRATE
    if os.environ.get("VERIF_REPO"):
        build_crate = os.path.join(WORK, "crate-copy-kani")
    src = None
    cmd = ["cargo", "kani", "-Z", "stubbing", "-Z", "concrete-playback", "--concrete-playback=print",
           "--harness", info["pretty"], "--exact", "--target-dir", TARGET]
    extra = []
    if resolved_labels_cmd:
        extra = ["-Z", "unstable-options", "--cbmc-args", "--unwindset", resolved_labels_cmd]
    rc, out, _, to, _ = _run(cmd + extra, timeout=max(900, 3 * h.timeout), cwd=build_crate)
    res["log"] += _quiet(out)[-6000:]
    tests = re.findall(r"(#\[test\]\s*\nfn (kani_concrete_playback_\w+)\(\) \{[\s\S]*?\n\})", out or "")
    crate = os.path.join(scratch, "kani-harness")
    shutil.copytree(build_crate, crate, ignore=shutil.ignore_patterns("target"))
    if not os.path.exists(os.path.join(scratch, "vendor")):
        os.symlink(os.path.join(VERIF, "vendor"), os.path.join(scratch, "vendor"))
    if tests:
        code, tname = tests[0]
        modfile = os.path.join(crate, info.get("file") or "src/lib.rs")
        with open(modfile, "a") as f:
            f.write("\n" + code + "\n")
        src = (modfile, tname, code)
    try:
        if not src:
            res["log"] += "\n[vcheck] no concrete playback test was generated"
            return res
        p, tname, text = src
        mm = re.search(r"(#\[test\]\s*\n\s*fn %s[\s\S]*?\n}\n)" % tname, text)
        test_path = os.path.join(outdir, "%s.playback.rs" % h.name)
        with open(test_path, "w") as f:
            f.write("// Kani concrete playback for harness %s (module %s)\n" % (h.name, os.path.basename(p)))
            f.write("// replay: vcheck.py --replay %s\n" % test_path)
            f.write(mm.group(1) if mm else text)
        res["test_path"] = test_path
        r2 = _run_playback_tests(crate, tname)
        res["log"] += r2.pop("log")
        res.update(r2)
        return res
    finally:
        shutil.rmtree(scratch, ignore_errors=True)


RELEASE_ENV = {
    # `cargo kani playback` has no --release: emulate the release profile's
    # semantics (optimised, no debug assertions, no overflow checks) in `dev`
    "CARGO_PROFILE_DEV_OPT_LEVEL": "3",
    "CARGO_PROFILE_DEV_DEBUG_ASSERTIONS": "false",
    "CARGO_PROFILE_DEV_OVERFLOW_CHECKS": "false",
}


def _run_playback_tests(crate, tname):
    res = {"log": ""}
    for envx, key in (({}, "reproduced_dev"), (RELEASE_ENV, "reproduced_release")):
        cmd = ["cargo", "kani", "playback", "-Z", "concrete-playback", "--", tname]
        old = dict(ENV)
        ENV.update(envx)
        try:
            rc, out, _, to, _ = _run(cmd, timeout=2400, cwd=crate)
        finally:
            ENV.clear()
            ENV.update(old)
        res["log"] += "\n$ %s %s\n%s" % (" ".join("%s=%s" % kv for kv in envx.items()), " ".join(cmd), _quiet(out)[-3000:])
        if to:
            res[key] = None
        else:
            failed = bool(re.search(r"test result: FAILED|panicked at", out or ""))
            ran = bool(re.search(r"running 1 test", out or ""))
            res[key] = failed if ran else None
    return res


def replay_file(path):
    """`vcheck.py <prop> --replay <file>`: re-inject a saved playback test into a
    scratch copy of the harness crate and run it natively against /repo."""
    text = open(path).read()
    m = re.search(r"\(module (\w+\.rs)\)", text)
    t = re.search(r"fn (kani_concrete_playback_\w+)", text)
    if not m or not t:
        print("not a playback file: %s" % path)
        return 2
    scratch = tempfile.mkdtemp(prefix="vreplay.", dir=os.environ.get("VERIF_SCRATCH", "/tmp"))
    try:
        crate = os.path.join(scratch, "kani-harness")
        shutil.copytree(HARNESS_CRATE, crate, ignore=shutil.ignore_patterns("target"))
        os.symlink(os.path.join(VERIF, "vendor"), os.path.join(scratch, "vendor"))
        with open(os.path.join(crate, "src", m.group(1)), "a") as f:
            f.write("\n" + text[text.index("#[test]"):])
        r = _run_playback_tests(crate, t.group(1))
        print(r["log"][-3000:])
        print("reproduced: dev=%s release-like=%s" % (r["reproduced_dev"], r["reproduced_release"]))
        return 1 if (r["reproduced_dev"] or r["reproduced_release"]) else 0
    finally:
        shutil.rmtree(scratch, ignore_errors=True)


def replays_dir(prop):
    """where counterexamples are written: /verif/replays/<id> for the registered commands, the
    scratch work directory for experiments (scratch repository, other work dir)"""
    if os.environ.get("VERIF_WORK") or os.environ.get("VERIF_REPO"):
        d = os.path.join(WORK, "replays", prop)
    else:
        d = os.path.join(VERIF, "replays", prop)
    os.makedirs(d, exist_ok=True)
    return d
