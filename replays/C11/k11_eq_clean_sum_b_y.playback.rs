// Kani concrete playback for harness k11_eq_clean_sum_b_y (module c10k.rs)
// replay: vcheck.py --replay /verif/replays/C11/k11_eq_clean_sum_b_y.playback.rs
#[test]
fn kani_concrete_playback_k11_eq_clean_sum_b_y_9743352386694626062() {
    let concrete_vals: Vec<Vec<u8>> = vec![
        // 0
        vec![0],
        // 0
        vec![0],
        // 0
        vec![0],
        // 253
        vec![253],
        // 0ul
        vec![0, 0, 0, 0, 0, 0, 0, 0],
        // 0
        vec![0],
        // 128
        vec![128],
        // 0
        vec![0],
        // 1
        vec![1],
        // 0ul
        vec![0, 0, 0, 0, 0, 0, 0, 0],
    ];
    kani::concrete_playback_run(concrete_vals, k11_eq_clean_sum_b_y);
}