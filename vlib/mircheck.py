"""Engine M checks (DESIGN.md C19, C07 layers 2/3): MIR -> SMT queries."""
import glob
import json
import os
import re
import shutil
import subprocess
import sys
import time

import z3

from . import mir2smt as M
from .mir2smt import Adt, Opaque, Ref, Unsupported

VERIF = os.path.dirname(os.path.dirname(os.path.abspath(__file__)))
WORK = os.environ.get("VERIF_WORK", os.path.join(VERIF, ".work"))


UNEXPLORED = []   # (section, reason) of the current run


class section:
    """a group of obligations over one function. If the encoder cannot express the function as it
    is written in this tree (a construct outside the MIR subset, an unexpected signature), the
    group is reported as UNEXPLORED - it is neither a pass nor a violation - and the other groups
    are still decided."""

    def __init__(self, name, log):
        self.name, self.log = name, log

    def __enter__(self):
        return self

    def __exit__(self, et, ev, tb):
        if et is not None and issubclass(et, (Unsupported, AttributeError, KeyError, IndexError, TypeError)):
            reason = "%s: %s" % (et.__name__, ev)
            UNEXPLORED.append((self.name, reason[:300]))
            self.log("  UNEXPLORED %s :: %s" % (self.name, reason[:300]))
            return True
        return False


def replays_dir(prop):
    """counterexamples of the registered commands go to /verif/replays/<id>, those of experiments
    (scratch repository, other work directory) to the scratch work directory"""
    if os.environ.get("VERIF_WORK") or os.environ.get("VERIF_REPO"):
        d = os.path.join(WORK, "replays", prop)
    else:
        d = os.path.join(VERIF, "replays", prop)
    os.makedirs(d, exist_ok=True)
    return d
REPO = os.environ.get("VERIF_REPO", "/repo")
ENV = dict(os.environ, CARGO_NET_OFFLINE="true")


def dump_mir():
    """MIR of /repo's current working tree (nightly, overflow checks on)."""
    tgt = os.path.join(WORK, "mir-target")
    os.makedirs(tgt, exist_ok=True)
    # force rustc to re-run on the lib even if cargo thinks it is fresh
    for d in glob.glob(os.path.join(tgt, "debug", ".fingerprint", "simplicity-lang-*")):
        shutil.rmtree(d, ignore_errors=True)
    t0 = time.time()
    p = subprocess.run(
        ["cargo", "+nightly", "rustc", "--offline", "--lib", "--target-dir", tgt, "--",
         "-Zunpretty=mir", "-C", "debug-assertions=off", "-C", "overflow-checks=on"],
        cwd=REPO, env=ENV, stdout=subprocess.PIPE, stderr=subprocess.PIPE, text=True)
    if p.returncode != 0 or len(p.stdout) < 1000:
        raise Unsupported("MIR dump failed: %s" % p.stderr[-1500:])
    with open(os.path.join(WORK, "mir.txt"), "w") as f:
        f.write(p.stdout)
    return p.stdout, time.time() - t0


# ------------------------------------------------------------------ solving
class Solver2:
    """Queries are queued, written as SMT-LIB2 and decided by two independent
    solvers run as separate processes (z3 5.1.0 CLI and cvc5 1.0.3), in
    parallel across queries. A query *holds* only if both answer unsat; it is
    *violated* if z3 answers sat (model read back with get-value) and cvc5 does
    not contradict it; anything else (timeout, unknown, error line, disagreement)
    is inconclusive."""

    def __init__(self, log, timeout_s=300, jobs=12):
        self.queue = []
        self.queries = []
        self.log = log
        self.solver_s = 0.0
        self.timeout_s = timeout_s
        self.jobs = jobs

    def add(self, name, assertions, vars_for_model=None):
        s = z3.Solver()
        for a in assertions:
            s.add(a)
        for a in M.SIDE:
            s.add(a)
        smt2 = "(set-logic ALL)\n" + s.to_smt2().replace("bvudiv_i", "bvudiv").replace("bvurem_i", "bvurem")
        path = os.path.join(WORK, "smt", re.sub(r"[^\w.-]", "_", name)[:100] + ".smt2")
        os.makedirs(os.path.dirname(path), exist_ok=True)
        with open(path, "w") as f:
            f.write(smt2)
        mv = [str(v) for v in (vars_for_model or []) if ("(declare-fun %s " % str(v)) in smt2]
        with open(path + ".model.smt2", "w") as f:
            f.write(smt2 + ("(get-value (%s))\n" % " ".join(mv) if mv else ""))
        self.queue.append({"name": name, "path": path, "mv": mv})

    def trivial(self, name, why):
        self.log("  %-60s %s" % (name, why))
        self.queries.append({"name": name, "verdict": "holds", "z3": "trivial", "cvc5": "trivial"})

    def _one(self, q):
        def run(cmd):
            t0 = time.time()
            try:
                p = subprocess.run(cmd, stdout=subprocess.PIPE, stderr=subprocess.PIPE, text=True,
                                   timeout=self.timeout_s + 15)
                out = (p.stdout + p.stderr).strip()
            except subprocess.TimeoutExpired:
                out = "timeout"
            return out, time.time() - t0
        zo, zt = run(["z3-new", "-smt2", "-T:%d" % self.timeout_s, q["path"] + ".model.smt2"])
        co, ct = run(["cvc5", "--lang", "smt2", "--tlimit", str(self.timeout_s * 1000), q["path"]])
        zl = zo.split("\n")[0].strip() if zo else "unknown"
        cl = co.split("\n")[0].strip() if co else "unknown"
        if "(error" in co:
            cl = "error"
        if zl not in ("sat", "unsat"):
            zl = "timeout" if "timeout" in zo else ("error" if "(error" in zo else "unknown")
        if cl not in ("sat", "unsat", "error"):
            cl = "timeout" if ("timeout" in co or "interrupted" in co) else "unknown"
        q.update({"z3": zl, "cvc5": cl, "z3_s": round(zt, 2), "cvc5_s": round(ct, 2)})
        if zl == "sat" and q["mv"]:
            model = {}
            for m in re.finditer(r"\(([^\s()]+) #x([0-9a-fA-F]+)\)|\(([^\s()]+) #b([01]+)\)", zo):
                if m.group(1):
                    model[m.group(1)] = int(m.group(2), 16)
                else:
                    model[m.group(3)] = int(m.group(4), 2)
            q["model"] = model
        if zl == "unsat" and cl == "unsat":
            q["verdict"] = "holds"
        elif zl == "sat" and cl != "unsat":
            q["verdict"] = "violated"
        elif cl == "sat" and zl != "unsat":
            q["verdict"] = "inconclusive"  # no model from cvc5 path; z3 undecided
        else:
            q["verdict"] = "inconclusive"
        return q

    def run_all(self):
        from concurrent.futures import ThreadPoolExecutor
        t0 = time.time()
        with ThreadPoolExecutor(max_workers=self.jobs) as ex:
            done = list(ex.map(self._one, self.queue))
        for q in done:
            self.solver_s += q["z3_s"] + q["cvc5_s"]
            self.log("  %-60s z3=%s (%.1fs) cvc5=%s (%.1fs) -> %s%s" % (
                q["name"][:60], q["z3"], q["z3_s"], q["cvc5"], q["cvc5_s"], q["verdict"],
                (" model=%s" % q.get("model")) if q.get("model") else ""))
            self.queries.append(q)
        self.queue = []
        self.wall_s = time.time() - t0
        return done


# ------------------------------------------------------------------ C19
def bv64(x):
    return z3.ZeroExt(64 - x.size(), x) if x.size() < 64 else x


def cs(x):
    """Bitcoin/Elements CompactSize length of a 64-bit count (environment model)."""
    return z3.If(z3.ULT(x, 253), z3.BitVecVal(1, 64),
                 z3.If(z3.ULE(x, 0xFFFF), z3.BitVecVal(3, 64),
                       z3.If(z3.ULE(x, 0xFFFFFFFF), z3.BitVecVal(5, 64), z3.BitVecVal(9, 64))))


def c19_models():
    models = dict(M.CORE_MODELS)

    def consensus_encode(mach, name, args):
        w = args[0].val if isinstance(args[0], Ref) else args[0]
        if not isinstance(w, Opaque) or w.tag != "witness":
            raise Unsupported("consensus_encode on %r" % (w,))
        return [(M.T(), "ret", Adt("Result", [w.data["S"]], "Ok"))]

    models[r"^<Vec<Vec<u8>> as elements::encode::Encodable>::consensus_encode::<.*>$"] = consensus_encode
    models[r"^std::io::sink$"] = lambda mach, name, args: [(M.T(), "ret", Opaque("sink"))]
    models[r"^(std::iter::)?once::<u8>$"] = lambda mach, name, args: [(M.T(), "ret", Opaque("once", {"b": args[0]}))]
    models[r"^std::iter::repeat::<u8>$"] = lambda mach, name, args: [(M.T(), "ret", Opaque("repeat", {"b": args[0]}))]

    def take(mach, name, args):
        if not (isinstance(args[0], Opaque) and args[0].tag == "repeat"):
            raise Unsupported("take on %r" % (args[0],))
        return [(M.T(), "ret", Opaque("take", {"b": args[0].data["b"], "n": args[1]}))]

    def chain(mach, name, args):
        a, b = args
        if not (isinstance(a, Opaque) and a.tag == "once" and isinstance(b, Opaque) and b.tag == "take"):
            raise Unsupported("chain on %r %r" % (a, b))
        return [(M.T(), "ret", Opaque("chain", {"first": a.data["b"], "rest": b.data["b"], "n": b.data["n"]}))]

    def collect(mach, name, args):
        (c,) = args
        if not (isinstance(c, Opaque) and c.tag == "chain"):
            raise Unsupported("collect on %r" % (c,))
        # once(x).chain(repeat(y).take(n)).collect::<Vec<u8>>() is a vector of
        # length 1+n with first byte x (cross-checked against the real iterator
        # code by Kani harness k19_annex_iter_model)
        return [(M.T(), "ret", Opaque("vec", {"len": bv64(c.data["n"]) + 1, "first": c.data["first"], "fill": c.data["rest"]}))]

    models[r"^<std::iter::Repeat<u8> as Iterator>::take$"] = take
    models[r"^<std::iter::Once<u8> as Iterator>::chain::<.*>$"] = chain
    models[r"^<std::iter::Chain<.*> as Iterator>::collect::<Vec<u8>>$"] = collect
    models[r"^bitcoin::Weight::to_wu$"] = lambda mach, name, args: [(M.T(), "ret", args[0].data["wu"])]
    models[r"^bitcoin::Weight::from_wu$"] = lambda mach, name, args: [(M.T(), "ret", Opaque("Weight", {"wu": args[0], "ty": "Weight"}))]
    return models


CONSENSUS_MAX = 4_000_050_000


def run_c19(mir_text, log, tier):
    funcs = M.parse_mir(mir_text)
    mach = M.Machine(funcs, c19_models())
    sol = Solver2(log, timeout_s=(300 if tier == "quick" else 1200))
    problems = []  # (query, verdict, model)
    fx = {"valid": None, "pad": None}

    cost = z3.BitVec("cost", 32)
    S = z3.BitVec("S", 64)      # serialized size of the witness stack
    n = z3.BitVec("n", 64)      # number of stack items
    dom = [z3.ULE(cost, CONSENSUS_MAX), z3.ULT(S, (1 << 32)), z3.UGE(S, cs(n) + n), z3.ULT(n, (1 << 32))]
    mv = [cost, S, n]

    def W(s):
        return Ref(Opaque("witness", {"S": s}))

    def spec_valid(c, s):
        # weight = ceil(cost/1000) <= serialized size + 50, written without division:
        # ceil(c/1000) <= b  <=>  c <= 1000*b over the integers (64-bit: c < 2^32, b < 2^33, no wrap)
        return z3.ULE(bv64(c), (s + 50) * 1000)

    def outcomes(f, args):
        return mach.exec_fn(f, args)

    def no_panic(name, outs, extra):
        pan = [c for (c, k, v) in outs if k == "panic"]
        if not pan:
            sol.trivial(name, "no panic path exists (syntactically)")
            return
        sol.add(name, extra + [z3.Or(pan)], vars_for_model=mv)

    # Q1: is_budget_valid <=> spec
    with section("Q1,Q5a Cost::is_budget_valid", log):
        f_valid = mach.find("::is_budget_valid")
        o_valid = outcomes(f_valid, [Adt("Cost", [cost]), W(S)])
        qs = []
        rets = [(c, v) for (c, k, v) in o_valid if k == "ret"]
        for i, (c, v) in enumerate(rets):
            qs.append(("Q1.%d is_budget_valid <=> ceil(cost/1000) <= S+50" % i, dom + [c, v != spec_valid(cost, S)]))
        no_panic("Q5a is_budget_valid never panics (S<2^32)", o_valid, dom)
        for (nm_, as_) in qs:
            sol.add(nm_, as_, vars_for_model=mv)
        fx["valid"] = f_valid

    # Q2..Q4, Q7 on get_padding, one query per path of get_padding
    with section("Q2,Q3,Q4,Q5b,Q7 Cost::get_padding", log):
        if fx["valid"] is None:
            raise Unsupported("is_budget_valid (needed to judge the padded stack) is not encoded")
        f_valid = fx["valid"]
        f_pad = mach.find("::get_padding")
        o_pad = outcomes(f_pad, [Adt("Cost", [cost]), W(S)])
        pads = [(c, v) for (c, k, v) in o_pad if k == "ret"]
        qs = []
        some_paths = 0
        for i, (c, v) in enumerate(pads):
            if not isinstance(v, Adt) or v.variant not in ("None", "Some"):
                raise Unsupported("get_padding returns %r" % (v,))
            if v.variant == "None":
                qs.append(("Q2.%d get_padding None => within budget" % i, dom + [c, z3.Not(spec_valid(cost, S))]))
                continue
            some_paths += 1
            vec = v.fields[0]
            if not (isinstance(vec, Opaque) and vec.tag == "vec"):
                raise Unsupported("annex is %r" % (vec,))
            L = vec.data["len"]
            qs.append(("Q2.%d get_padding Some => over budget" % i, dom + [c, spec_valid(cost, S)]))
            qs.append(("Q7.%d annex is 0x50 followed by zero bytes" % i,
                       dom + [c, z3.Or(vec.data["first"] != 0x50, vec.data["fill"] != 0)]))
            S2 = S + cs(L) + L + (cs(n + 1) - cs(n))
            bad3 = []
            for (c2, k2, v2) in outcomes(f_valid, [Adt("Cost", [cost]), W(S2)]):
                bad3.append(c2 if k2 == "panic" else z3.And(c2, z3.Not(v2)))
            qs.append(("Q3.%d appended annex brings the cost within budget" % i, dom + [c, z3.Or(bad3)]))
            # minimality: one byte shorter (still holding the 0x50 tag)
            L1 = L - 1
            S3 = S + cs(L1) + L1
            bad4 = []
            for (c3, k3, v3) in outcomes(f_valid, [Adt("Cost", [cost]), W(S3)]):
                if k3 == "ret":
                    bad4.append(z3.And(c3, v3))
            qs.append(("Q4.%d annex one byte shorter stays over budget (count off CompactSize edge)" % i,
                       dom + [c, z3.UGE(L, 2), cs(n + 1) == cs(n), z3.Or(bad4)]))
        if some_paths == 0:
            raise Unsupported("get_padding has no path returning Some")
        no_panic("Q5b get_padding never panics (S<2^32)", o_pad, dom)
        for (nm_, as_) in qs:
            sol.add(nm_, as_, vars_for_model=mv)
        fx["pad"] = f_pad

    # Q6 conversions
    c1 = z3.BitVec("c1", 32)
    c2_ = z3.BitVec("c2", 32)
    w1 = z3.BitVec("w1", 32)
    w2 = z3.BitVec("w2", 32)
    cv = [c1, c2_, w1, w2]

    def single_ret(f, args, what):
        outs = outcomes(f, args)
        pan = [c for (c, k, _) in outs if k == "panic"]
        rets_ = [(c, v) for (c, k, v) in outs if k == "ret"]
        return pan, rets_

    def val_of(rets_, getter):
        r = None
        for (c, v) in reversed(rets_):
            x = getter(v)
            r = x if r is None else z3.If(c, x, r)
        return r

    with section("Q6a-g Cost <-> U32Weight conversions", log):
        f_c2w = mach.find(">::from", param_types=["Cost"], ret="U32Weight")
        f_w2c = mach.find(">::from", param_types=["U32Weight"], ret="Cost")
        pan1, r1 = single_ret(f_c2w, [Adt("Cost", [c1])], "c2w")
        pan2, r2 = single_ret(f_c2w, [Adt("Cost", [c2_])], "c2w")
        wt1 = val_of(r1, lambda v: v.fields[0])
        wt2 = val_of(r2, lambda v: v.fields[0])
        pw, rw = single_ret(f_w2c, [Adt("U32Weight", [w1])], "w2c")
        pw2, rw2 = single_ret(f_w2c, [Adt("U32Weight", [w2])], "w2c")
        ct1 = val_of(rw, lambda v: v.fields[0])
        ct2 = val_of(rw2, lambda v: v.fields[0])
        prt, rrt = single_ret(f_c2w, [Adt("Cost", [ct1])], "rt")
        back = val_of(rrt, lambda v: v.fields[0])
        if pan1:
            sol.add("Q6a Cost->weight never panics", [z3.Or(pan1)], vars_for_model=cv)
        else:
            sol.trivial("Q6a Cost->weight never panics", "no panic path exists (syntactically)")
        sol.add("Q6b Cost->weight of 0 is 0", [c1 == 0, wt1 != 0], vars_for_model=cv)
        sol.add("Q6c Cost->weight rounds up: weight*1000 >= cost > (weight-1)*1000 (cost <= CONSENSUS_MAX)",
                [z3.ULE(c1, CONSENSUS_MAX), c1 != 0,
                 z3.Not(z3.And(z3.UGE(bv64(wt1) * 1000, bv64(c1)), z3.ULT((bv64(wt1) - 1) * 1000, bv64(c1))))], vars_for_model=cv)
        sol.add("Q6d Cost->weight monotone (all u32 costs)", [z3.ULE(c1, c2_), z3.UGT(wt1, wt2)], vars_for_model=cv)
        sol.add("Q6e weight->Cost monotone", [z3.ULE(w1, w2), z3.UGT(ct1, ct2)], vars_for_model=cv)
        sol.add("Q6f weight->Cost = weight*1000 below saturation", [z3.ULE(w1, 4294967), bv64(ct1) != bv64(w1) * 1000], vars_for_model=cv)
        sol.add("Q6g weight->Cost->weight is the identity (weight <= 4 294 966)", [z3.ULE(w1, 4294966), back != w1], vars_for_model=cv)
    wu = z3.BitVec("wu", 64)
    with section("Q6h Cost -> bitcoin::Weight", log):
        f_c2bw = mach.find(">::from", param_types=["Cost"], ret="bitcoin::Weight")
        pb, rb = single_ret(f_c2bw, [Adt("Cost", [c1])], "c2bw")
        bwv = val_of(rb, lambda v: v.data["wu"])
        sol.add("Q6h Cost->bitcoin::Weight = ceil(cost/1000)",
                [z3.ULE(c1, CONSENSUS_MAX),
                 z3.Not(z3.If(c1 == 0, bwv == 0, z3.And(z3.UGE(bwv * 1000, bv64(c1)), z3.ULT((bwv - 1) * 1000, bv64(c1)))))], vars_for_model=cv)
    with section("Q6i bitcoin::Weight -> Cost", log):
        f_bw2c = mach.find(">::from", param_types=["bitcoin::Weight"], ret="Cost")
        pb2, rb2 = single_ret(f_bw2c, [Opaque("Weight", {"wu": wu, "ty": "Weight"})], "bw2c")
        cfrom = val_of(rb2, lambda v: v.fields[0])
        sol.add("Q6i bitcoin::Weight->Cost = min(wu*1000, u32::MAX), no truncation",
                [bv64(cfrom) != z3.If(z3.UGT(wu, 4294967), z3.BitVecVal(0xFFFFFFFF, 64), wu * 1000)], vars_for_model=[wu])
    with section("Q6j bitcoin::Weight -> U32Weight", log):
        f_bw2w = mach.find(">::from", param_types=["bitcoin::Weight"], ret="U32Weight")
        pb3, rb3 = single_ret(f_bw2w, [Opaque("Weight", {"wu": wu, "ty": "Weight"})], "bw2w")
        wfrom = val_of(rb3, lambda v: v.fields[0])
        sol.add("Q6j bitcoin::Weight->U32Weight saturates, never truncates",
                [bv64(wfrom) != z3.If(z3.UGT(wu, 0xFFFFFFFF), z3.BitVecVal(0xFFFFFFFF, 64), wu)], vars_for_model=[wu])

    for q in sol.run_all():
        if q["verdict"] != "holds":
            problems.append((q["name"], q["verdict"], q.get("model")))

    return mach, sol, problems, (fx["valid"], fx["pad"], cost, S, n)


def concrete_eval(mach, f_valid, f_pad, cost_v, S_v):
    """push one concrete input through the *encoding* (translator validation)"""
    def W(s):
        return Ref(Opaque("witness", {"S": z3.BitVecVal(s, 64)}))

    def pick(outs):
        # exactly one outcome's path condition is consistent with the division lemmas
        hit = []
        for (c, k, v) in outs:
            s = z3.Solver()
            s.add(c)
            for a in M.SIDE:
                s.add(a)
            if s.check() == z3.sat:
                hit.append((k, v, s.model()))
        if len(hit) != 1:
            raise Unsupported("concrete evaluation of the encoding is not deterministic (%d paths)" % len(hit))
        return hit[0]
    res = {}
    k, v, m = pick(mach.exec_fn(f_valid, [Adt("Cost", [z3.BitVecVal(cost_v, 32)]), W(S_v)]))
    res["valid"] = None if k == "panic" else z3.is_true(m.eval(v, model_completion=True))
    if f_pad is None:
        return res
    k, v, m = pick(mach.exec_fn(f_pad, [Adt("Cost", [z3.BitVecVal(cost_v, 32)]), W(S_v)]))
    if k == "panic":
        res["pad"] = "panic"
    elif v.variant == "None":
        res["pad"] = None
    else:
        res["pad"] = m.eval(v.fields[0].data["len"], model_completion=True).as_long()
    return res


def native(args):
    """run the replay binary (real code of /repo, native build)"""
    exe = build_replay()
    p = subprocess.run([exe] + [str(a) for a in args], stdout=subprocess.PIPE, stderr=subprocess.PIPE, text=True, timeout=600)
    if p.returncode != 0:
        return {"error": (p.stderr or p.stdout)[-500:]}
    return json.loads(p.stdout)


_replay_built = {}


def build_replay(release=False):
    key = "release" if release else "dev"
    if key in _replay_built:
        return _replay_built[key]
    from . import kani as _k
    crate = _k.crate_for_repo(os.path.join(VERIF, "replay"), "replay")
    tgt = os.path.join(WORK, "replay-target")
    cmd = ["cargo", "build", "--offline", "--target-dir", tgt] + (["--release"] if release else [])
    p = subprocess.run(cmd, cwd=crate, env=ENV, stdout=subprocess.PIPE, stderr=subprocess.STDOUT, text=True)
    if p.returncode != 0:
        raise Unsupported("replay binary does not build: %s" % p.stdout[-1500:])
    exe = os.path.join(tgt, "release" if release else "debug", "vreplay")
    _replay_built[key] = exe
    return exe


# test vectors of the repo's own `test_get_padding` / `cost_to_weight`
# (cost, stack item sizes)
EMPTY = 51_000
VECTORS = [(0, []), (EMPTY, []), (EMPTY + 1, []), (EMPTY + 2000, []), (EMPTY + 2001, []), (EMPTY + 3000, []),
           (EMPTY + 3001, []), (EMPTY + 4000, []), (EMPTY + 4001, []), (EMPTY + 50_000, []),
           (EMPTY + 253_000, []), (EMPTY + 254_000, []), (EMPTY + 255_000, []), (EMPTY + 256_000, []),
           (EMPTY + 257_000, []), (EMPTY + 7_424_000, []), (8_045_103, [0, 497, 32, 33]),
           (CONSENSUS_MAX, []), (EMPTY + 65_538_000, []), (EMPTY + 65_539_000, []), (EMPTY + 65_541_000, []),
           (999, [252]), (1_000_000, [253] * 3), (70_000_000, [0] * 252), (70_000_000, [0] * 253)]


def ser_len(items):
    def c(x):
        return 1 if x < 253 else 3 if x <= 0xFFFF else 5 if x <= 0xFFFFFFFF else 9
    return c(len(items)) + sum(c(i) + i for i in items)


def stack_for(n_v, S_v):
    """item sizes of a stack with n items serialising to S bytes, if one exists"""
    def c(x):
        return 1 if x < 253 else 3 if x <= 0xFFFF else 5 if x <= 0xFFFFFFFF else 9
    if n_v == 0:
        return [] if S_v == 1 else None
    rest = S_v - c(n_v)
    # n-1 small items, one big one; try a few splits
    for small in (0, 1, 2, 3, 7, 100, 252):
        for k_small in range(0, min(n_v, 4)):
            base = [0] * (n_v - 1 - k_small) + [small] * k_small
            used = sum(c(i) + i for i in base)
            left = rest - used
            for x in (left - 1, left - 3, left - 5):
                if x >= 0 and c(x) + x == left:
                    return base + [x]
    return None


def run(prop, spec, tier, seed):
    t0 = time.time()
    lines = []

    def log(s):
        print(s, flush=True)
        lines.append(s)

    os.makedirs(os.path.join(VERIF, "evidence"), exist_ok=True)
    os.makedirs(WORK, exist_ok=True)
    exit_code = 0
    ev_extra = {}
    del UNEXPLORED[:]
    try:
        mir, dump_s = dump_mir()
        log("[%s] MIR of /repo dumped in %.1fs (%d lines)" % (prop, dump_s, mir.count("\n")))
        runner = {"C19": run_c19_full, "C07": run_c07_full, "C14": run_c14_full}[prop]
        exit_code, ev_extra = runner(prop, mir, log, tier)
        if UNEXPLORED:
            # not a verdict on the property: the obligations below could not be expressed for the
            # code as it is written in this tree; everything else was decided
            for (sec, why) in UNEXPLORED:
                print("UNEXPLORED: property=%s obligations=%r reason=%s" % (prop, sec, why))
            ev_extra["unexplored"] = [{"obligations": sec, "reason": why} for (sec, why) in UNEXPLORED]
            ev_extra["explanation"] = ("%d group(s) of obligations were NOT explored on this tree (encoder subset); "
                                       "the exit status speaks for the explored ones only" % len(UNEXPLORED))
            if not ev_extra.get("obligations") and exit_code == 0:
                log("[%s] nothing could be explored on this tree" % prop)
                exit_code = 2
    except Unsupported as e:
        log("[%s] INCONCLUSIVE: %s" % (prop, e))
        exit_code = 2
        ev_extra = {"explanation": "inconclusive: %s" % e, "evaluations": 1, "distinct_nontrivial": 0, "samples": [str(e)]}
    ev = {
        "property_id": prop, "tier": tier, "seed": seed, "level": "model_checking",
        "coverage": ev_extra,
        "assumptions": spec.get("assumptions", []),
        "wall_s": round(time.time() - t0, 1),
        "violations": 1 if exit_code == 1 else 0,
    }
    edir = os.path.join(WORK, "evidence") if (os.environ.get("VERIF_WORK") or os.environ.get("VERIF_REPO")) else os.path.join(VERIF, "evidence")
    os.makedirs(edir, exist_ok=True)
    with open(os.path.join(edir, "%s.json" % prop), "w") as f:
        json.dump(ev, f, indent=1)
    log("[%s] exit %d (%.0fs)" % (prop, exit_code, time.time() - t0))
    return exit_code


def run_c19_full(prop, mir, log, tier):
    mach, sol, problems, (f_valid, f_pad, cost, S, n) = run_c19(mir, log, tier)
    # translator validation on the repo's own test vectors (+ a few edges)
    disagreements = 0
    validated = 0
    samples = []
    for (c, items) in VECTORS:
        if f_valid is None:
            log("  translator validation skipped: is_budget_valid is not encoded on this tree")
            break
        s = ser_len(items)
        enc = concrete_eval(mach, f_valid, f_pad, c, s)
        nat = native(["budget", c] + items)
        validated += 1
        ok = ("error" not in nat and enc.get("valid") == nat["valid"] and (f_pad is None or enc.get("pad") == nat["padding_len"])
              and nat["serialized_len"] == s)
        if not ok:
            disagreements += 1
            log("  TRANSLATOR MISMATCH cost=%d items=%s encoding=%s native=%s" % (c, items[:5], enc, nat))
        if len(samples) < 6:
            samples.append({"cost": c, "stack_items": items[:6], "encoding": enc, "native": nat})
    log("  translator validation: %d vectors through encoding and native build, %d disagreements" % (validated, disagreements))
    exit_code = 0
    if disagreements:
        exit_code = 2
    # replay of counterexamples
    replay_paths = []
    for (nm, verdict, model) in problems:
        if verdict == "inconclusive" or model is None:
            log("INCONCLUSIVE query %s" % nm)
            exit_code = max(exit_code, 2) if exit_code != 1 else 1
            continue
        rp = replay_c19(nm, model, log)
        if rp is True:
            path = os.path.join(replays_dir("C19"), re.sub(r"\W+", "_", nm)[:40] + ".json")
            os.makedirs(os.path.dirname(path), exist_ok=True)
            json.dump({"query": nm, "model": model, "replay_cmd": "vcheck.py C19 --replay " + path}, open(path, "w"), indent=1)
            print("VIOLATION property=C19 replay=%s" % path)
            print("  %s model=%s" % (nm, model))
            exit_code = 1
        else:
            log("NON-REPRODUCING counterexample for %s: %s (%s)" % (nm, model, rp))
            if exit_code == 0:
                exit_code = 2
    holds = [q for q in sol.queries if q.get("verdict") == "holds"]
    cov = {
        "evaluations": len(sol.queries) + validated,
        "distinct_nontrivial": len([q for q in holds if q.get("z3") != "trivial"]),
        "rule": "one evaluation = one SMT query (negated property over all 32-bit costs, all 64-bit stack sizes/counts within the stated domain) decided by z3 and cross-checked by cvc5, or one translator-validation vector; non-trivial = a query that needed the solver (not syntactically discharged)",
        "samples": [{"query": q["name"], "z3": q["z3"], "cvc5": q.get("cvc5"), "verdict": q["verdict"], "z3_s": q.get("z3_s"), "cvc5_s": q.get("cvc5_s"), "model": q.get("model")} for q in sol.queries],
        "obligations": len(sol.queries), "discharged": len(holds),
        "checker_cmd": "cargo +nightly rustc -- -Zunpretty=mir | vlib/mir2smt.py | z3 5.1.0 (python) + cvc5 1.0.3 --lang smt2",
        "functions_encoded": mach.encoded,
        "calls_modelled": sorted(set(mach.modelled)),
        "bounds": "no loop: every cost in [0, 4_000_050_000], every serialized stack size S < 2^32 and item count n < 2^32 with S >= cs(n)+n",
        "outside_claim": "conformance of elements' consensus_encode to the CompactSize rule; stacks of 4 GiB or more (get_budget panics there by design); costs above CONSENSUS_MAX",
        "translator_validation": {"vectors": validated, "disagreements": disagreements, "samples": samples},
        "solver_time_s": round(sol.solver_s, 2),
        "traces_validated_against_impl": validated,
        "exhaustive": False,
    }
    return exit_code, cov


def friendly_model(nm, log):
    """ask z3 again for a counterexample that is cheap to replay natively: few stack items, small stack"""
    path = os.path.join(WORK, "smt", re.sub(r"[^\w.-]", "_", nm)[:100] + ".smt2.model.smt2")
    if not os.path.exists(path):
        return None
    text = open(path).read()
    if "(declare-fun S " not in text or "(declare-fun n " not in text:
        return None
    head, tail = text.split("(check-sat)", 1)
    # realisable shapes first: with exactly two items every serialised size >= 3 exists
    for (ncons, sbits) in [("(assert (= n (_ bv2 64)))\n(assert (bvuge S (_ bv3 64)))\n", b) for b in (12, 16, 20, 23, 26)] + \
                          [("(assert (bvule n (_ bv2 64)))\n", b) for b in (12, 16, 20, 23, 26, 32)]:
        extra = ncons + "(assert (bvult S (_ bv%d 64)))\n" % (1 << sbits)
        tmp = path + ".friendly.smt2"
        open(tmp, "w").write(head + extra + "(check-sat)" + tail)
        try:
            p = subprocess.run(["z3-new", "-smt2", "-T:120", tmp], stdout=subprocess.PIPE, stderr=subprocess.PIPE, text=True, timeout=150)
        except subprocess.TimeoutExpired:
            continue
        if p.stdout.startswith("sat"):
            model = {}
            for m in re.finditer(r"\(([^\s()]+) #x([0-9a-fA-F]+)\)", p.stdout):
                model[m.group(1)] = int(m.group(2), 16)
            log("  replay-friendly counterexample: %s" % model)
            return model
    return None


def replay_c19(nm, model, log):
    if "cost" in model and (model.get("S", 0) > (1 << 26) or model.get("n", 0) > 4):
        fm = friendly_model(nm, log)
        if fm:
            model = fm
        else:
            return "counterexample needs a stack of %d bytes / %d items; no smaller one exists within the replay limits" % (model.get("S", 0), model.get("n", 0))
    if "cost" not in model:
        # conversion queries: replay through the native conversion functions
        r = native(["convert", model.get("c1", 0), model.get("c2", 0), model.get("w1", 0), model.get("w2", 0), model.get("wu", 0)])
        log("  native conversions: %s" % r)
        return check_conv_native(nm, model, r)
    items = stack_for(model["n"], model["S"])
    if items is None:
        return "no concrete stack with n=%d S=%d" % (model["n"], model["S"])
    r = native(["budget", model["cost"]] + items)
    log("  native replay: cost=%d items=%s.. -> %s" % (model["cost"], items[:4], r))
    if "error" in r:
        return True if "panicked" in r["error"] else r["error"]
    weight = (model["cost"] + 999) // 1000
    spec = weight <= r["serialized_len"] + 50
    if r["valid"] != spec:
        return True
    if (r["padding_len"] is None) != spec:
        return True
    if r["padding_len"] is not None:
        if not r["valid_with_annex"]:
            return True
        if r["valid_with_shorter_annex"] and r["count_cs_stable"]:
            return True
        if not r["annex_wellformed"]:
            return True
    return "native run satisfies the property"


def check_conv_native(nm, m, r):
    if "error" in r:
        return True if "panicked" in r["error"] else r["error"]
    c1, c2, w1, w2, wu = m.get("c1", 0), m.get("c2", 0), m.get("w1", 0), m.get("w2", 0), m.get("wu", 0)
    ceil = lambda c: (c + 999) // 1000
    bad = False
    if c1 <= CONSENSUS_MAX and r["c1_w"] != ceil(c1):
        bad = True
    if c1 <= c2 and r["c1_w"] > r["c2_w"]:
        bad = True
    if w1 <= w2 and r["w1_c"] > r["w2_c"]:
        bad = True
    if w1 <= 4294967 and r["w1_c"] != w1 * 1000:
        bad = True
    if w1 <= 4294966 and r["w1_c_w"] != w1:
        bad = True
    if c1 <= CONSENSUS_MAX and r["c1_bw"] != ceil(c1):
        bad = True
    if r["wu_c"] != min(wu * 1000, 0xFFFFFFFF):
        bad = True
    return True if bad else "native conversions satisfy the property"


# ------------------------------------------------------------------ C07 (layers 2 and 3)
def c07_models(prog):
    models = dict(M.CORE_MODELS)

    def arrow(mach, name, args):
        return [(M.T(), "ret", Ref(Adt("FinalArrow", [Ref(Opaque("final", {"w": prog["src"]})),
                                                       Ref(Opaque("final", {"w": prog["tgt"]}))])))]

    def bounds(mach, name, args):
        return [(M.T(), "ret", Adt("NodeBounds", [prog["cells"], prog["frames"], Adt("Cost", [prog["cost"]])]))]

    def bit_width(mach, name, args):
        v = args[0]
        while isinstance(v, Ref):
            v = v.val
        return [(M.T(), "ret", v.data["w"])]

    models[r"^redeem::<impl Node<Redeem>>::arrow$"] = arrow
    models[r"^redeem::<impl Node<Redeem>>::bounds$"] = bounds
    models[r"^Final::bit_width$"] = bit_width
    models[r"^std::vec::from_elem::<u8>$"] = lambda mach, name, args: [(M.T(), "ret", Opaque("bytes", {"len": args[1]}))]
    models[r"^Vec::<Frame>::with_capacity$"] = lambda mach, name, args: [(M.T(), "ret", Opaque("frames", {"cap": args[0]}))]
    models[r"^<Arc<Final> as Clone>::clone$"] = lambda mach, name, args: [(M.T(), "ret", Opaque("arc"))]
    return models


def ext(x, w=66):
    return z3.ZeroExt(w - x.size(), x)


def run_c07(mir_text, log, tier):
    funcs = M.parse_mir(mir_text)
    src, tgt, cells, frames = [z3.BitVec(n, 64) for n in ("src", "tgt", "cells", "frames")]
    cost = z3.BitVec("cost", 32)
    prog = {"src": src, "tgt": tgt, "cells": cells, "frames": frames, "cost": cost}
    mach = M.Machine(funcs, c07_models(prog))
    sol = Solver2(log, timeout_s=(120 if tier == "quick" else 600))
    pv = [src, tgt, cells, frames]

    MC = mach.const("bit_machine::limits::MAX_CELLS")
    MF = mach.const("bit_machine::limits::MAX_FRAMES")
    IOF = mach.const("analysis::IO_EXTRA_FRAMES")
    for nm, c in (("MAX_CELLS", MC), ("MAX_FRAMES", MF), ("IO_EXTRA_FRAMES", IOF)):
        if not z3.is_bv_value(z3.simplify(c)):
            raise Unsupported("constant %s does not evaluate" % nm)
    mc, mf, iof = [z3.simplify(c).as_long() for c in (MC, MF, IOF)]
    log("  limits read from MIR: MAX_CELLS=%d MAX_FRAMES=%d IO_EXTRA_FRAMES=%d" % (mc, mf, iof))
    if not (mc < (1 << 63) and mf < (1 << 63)):
        raise Unsupported("limits are not below usize::MAX/2 as limits.rs documents")

    # ---- layer 3: check_program / for_program
    P = Ref(Opaque("program"))
    io = ext(src) + ext(tgt)
    spec_ok = z3.And(z3.ULE(ext(src), mc), z3.ULE(ext(tgt), mc), z3.ULE(ext(cells), mc), z3.ULE(io, mc),
                     z3.ULE(io + ext(cells), mc), z3.ULE(ext(frames), mf), z3.ULE(ext(frames) + iof, mf))
    with section("L3a,L3b LimitError::check_program", log):
        f_check = mach.find("::check_program")
        outs = mach.exec_fn(f_check, [P])
        pan = [c for (c, k, v) in outs if k == "panic"]
        bad = []
        for (c, k, v) in outs:
            if k == "ret":
                if not (isinstance(v, Adt) and v.variant in ("Ok", "Err")):
                    raise Unsupported("check_program returns %r" % (v,))
                bad.append(z3.And(c, spec_ok if v.variant == "Err" else z3.Not(spec_ok)))
        if pan:
            sol.add("L3a check_program never panics (all usize widths/bounds)", [z3.Or(pan)], vars_for_model=pv)
        else:
            sol.trivial("L3a check_program never panics", "no panic path exists (syntactically)")
        sol.add("L3b check_program Err <=> one of the seven documented sums exceeds its limit", [z3.Or(bad)], vars_for_model=pv)
    with section("L3c,L3d BitMachine::for_program", log):
        f_for = mach.find("::for_program")
        outs2 = mach.exec_fn(f_for, [P])
        pan2 = [c for (c, k, v) in outs2 if k == "panic"]
        bad2 = []
        for (c, k, v) in outs2:
            if k != "ret":
                continue
            if v.variant == "Err":
                bad2.append(z3.And(c, spec_ok))
            else:
                bm = v.fields[0]
                data, rd, wr = bm.fields[0], bm.fields[2], bm.fields[3]
                enough = z3.And(z3.UGE(ext(data.data["len"]) * 8, io + ext(cells)),
                                ext(rd.data["cap"]) == ext(frames) + iof, ext(wr.data["cap"]) == ext(frames) + iof)
                bad2.append(z3.And(c, z3.Or(z3.Not(spec_ok), z3.Not(enough))))
        if pan2:
            sol.add("L3c for_program never panics (arithmetic after the check cannot overflow)", [z3.Or(pan2)], vars_for_model=pv)
        else:
            sol.trivial("L3c for_program never panics", "no panic path exists (syntactically)")
        sol.add("L3d for_program: refuses iff over a limit; else allocates >= src+tgt+extra_cells bits and extra_frames+2 frames",
                [z3.Or(bad2)], vars_for_model=pv)

    # ---- layer 2: each NodeBounds constructor keeps the invariant
    #   I(bound, actual) := bound >= actual  or  bound > limit (so the machine refuses)
    cl, cr, fl, fr, al, ar, gl, gr = [z3.BitVec(n, 64) for n in ("cl", "cr", "fl", "fr", "al", "ar", "gl", "gr")]
    mid, w1, w2, w3 = [z3.BitVec(n, 64) for n in ("mid", "w1", "w2", "w3")]
    kl, kr = z3.BitVec("kl", 32), z3.BitVec("kr", 32)
    lv = [cl, cr, fl, fr, al, ar, gl, gr, mid, w1, w2, w3]
    BL = Adt("NodeBounds", [cl, fl, Adt("Cost", [kl])])
    BR = Adt("NodeBounds", [cr, fr, Adt("Cost", [kr])])

    def inv(bound, actual, lim):
        return z3.Or(z3.UGE(ext(bound), actual), z3.UGT(ext(bound), lim))

    def mx(a, b):
        return z3.If(z3.UGT(a, b), a, b)
    hyp = [inv(cl, ext(al), mc), inv(cr, ext(ar), mc), inv(fl, ext(gl), mf), inv(fr, ext(gr), mf),
           # frame bounds count nested frames: far below 2^62 in any program that fits in memory
           z3.ULE(fl, 1 << 62), z3.ULE(fr, 1 << 62), z3.ULE(gl, 1 << 62), z3.ULE(gr, 1 << 62)]
    # (constructor name, args, actual peak cells (66-bit), actual peak frames)
    # recurrence read off BitMachine::exec_with_tracker (a model; validated natively against the real
    # interpreter's high-water marks by `vreplay peaks`)
    cases = [
        ("iden", [w1], z3.BitVecVal(0, 66), z3.BitVecVal(0, 66)),
        ("unit", [], z3.BitVecVal(0, 66), z3.BitVecVal(0, 66)),
        ("witness", [w1], z3.BitVecVal(0, 66), z3.BitVecVal(0, 66)),
        ("fail", [], z3.BitVecVal(0, 66), z3.BitVecVal(0, 66)),
        ("injl", [BL], ext(al), ext(gl)), ("injr", [BL], ext(al), ext(gl)),
        ("take", [BL], ext(al), ext(gl)), ("drop", [BL], ext(al), ext(gl)),
        ("assertl", [BL], ext(al), ext(gl)), ("assertr", [BL], ext(al), ext(gl)),
        ("case", [BL, BR], mx(ext(al), ext(ar)), mx(ext(gl), ext(gr))),
        ("pair", [BL, BR], mx(ext(al), ext(ar)), mx(ext(gl), ext(gr))),
        ("comp", [BL, BR, mid], ext(mid) + mx(ext(al), ext(ar)), 1 + mx(ext(gl), ext(gr))),
        # disconnect(left, right, b_width, left_source_width, left_target_width)
        ("disconnect", [BL, BR, w1, w2, w3], ext(w2) + ext(w3) + mx(ext(al), ext(ar)), 2 + mx(ext(gl), ext(gr))),
    ]
    for (nm, args, acells, aframes) in cases:
        with section("L2.%s NodeBounds::%s" % (nm, nm), log):
            cands = [g for g in funcs if g.name.startswith("analysis::") and g.name.endswith("::" + nm) and g.ret == "NodeBounds"]
            if len(cands) > 1 and all(c.params == cands[0].params for c in cands):
                cands = cands[-1:]
            if len(cands) != 1:
                raise Unsupported("NodeBounds::%s: %d MIR bodies" % (nm, len(cands)))
            outs = mach.exec_fn(cands[0], args)
            pan = [c for (c, k, v) in outs if k == "panic"]
            badc, badf = [], []
            for (c, k, v) in outs:
                if k == "ret":
                    badc.append(z3.And(c, z3.Not(inv(v.fields[0], acells, mc))))
                    badf.append(z3.And(c, z3.Not(inv(v.fields[1], aframes, mf))))
            if pan:
                sol.add("L2.%s never panics (no overflow for any child bounds / widths)" % nm, hyp + [z3.Or(pan)], vars_for_model=lv)
            else:
                sol.trivial("L2.%s never panics" % nm, "no panic path exists (syntactically)")
            sol.add("L2.%s extra_cells covers the interpreter's peak (or exceeds the limit)" % nm, hyp + [z3.Or(badc)], vars_for_model=lv)
            sol.add("L2.%s extra_frames covers the interpreter's peak (or exceeds the limit)" % nm, hyp + [z3.Or(badf)], vars_for_model=lv)
    # ---- layer 1 (glue): RedeemData::new passes the right widths to the constructors.
    # For each combinator the node's bounds, computed by the real RedeemData::new from its
    # children's cached data and arrows, keep the invariant w.r.t. the recurrence evaluated on
    # the children's *true* type widths.
    def layer1():
        try:
            src_inner = open(os.path.join(REPO, "src", "node", "inner.rs")).read()
            body = src_inner[src_inner.index("pub enum Inner"):]
            body = body[body.index("{") + 1:body.index("\n}")]
            variants = re.findall(r"^\s{4}([A-Z]\w*)", body, re.M)
        except Exception as e:
            raise Unsupported("cannot read the variant order of node::Inner: %s" % e)
        if len(variants) != 16 or variants[0] != "Iden":
            raise Unsupported("unexpected variants of node::Inner: %r" % variants)
        vidx = {v: i for i, v in enumerate(variants)}
        f_new = [g for g in funcs if g.name.startswith("redeem::") and g.name.endswith("::new") and g.ret == "RedeemData"]
        if len(f_new) != 1:
            raise Unsupported("RedeemData::new: %d MIR bodies" % len(f_new))
        f_new = f_new[0]
        gm = dict(mach.models)
        for pat in (r"^Amr::\w+$", r"^Imr::\w+$", r"^Ihr::from_imr$", r"^<Cmr as Into<.*>>::into$", r"^<.* as From<Cmr>>::from$"):
            gm[pat] = lambda mach_, name, args: [(M.T(), "ret", Opaque("root"))]
        gm[r"^<Arc<RedeemData> as Deref>::deref$"] = M.m_deref
        gm[r"^<&Arc<RedeemData> as Deref>::deref$"] = M.m_deref

        def bw(mach_, name, args):
            v = args[0]
            while isinstance(v, Ref):
                v = v.val
            return [(M.T(), "ret", v.data["w"])]
        gm[r"^Final::bit_width$"] = bw
        gmach = M.Machine(funcs, gm)
        orig_rvalue = gmach.rvalue

        def rvalue(env, f, dst, rv):
            m = re.match(r"^discriminant\((.+)\)$", rv.strip())
            if m:
                v = gmach.read_place(env, m.group(1))
                if isinstance(v, Adt) and v.name == "Inner":
                    return z3.BitVecVal(vidx[v.variant], 64)
            return orig_rvalue(env, f, dst, rv)
        gmach.rvalue = rvalue

        def fin(w):
            return Ref(Opaque("final", {"w": w}))
        a_s, a_t, l_s, l_t, r_s, r_t = [z3.BitVec(n, 64) for n in ("a_src", "a_tgt", "l_src", "l_tgt", "r_src", "r_tgt")]
        gv = lv + [a_s, a_t, l_s, l_t, r_s, r_t]
        arrow = Adt("FinalArrow", [fin(a_s), fin(a_t)])

        def data(cells, frames, cost_, s_, t_):
            return Ref(Ref(Adt("RedeemData", [Opaque("amr"), Opaque("imr"), Opaque("ihr"),
                                              Adt("FinalArrow", [fin(s_), fin(t_)]),
                                              Adt("NodeBounds", [cells, frames, Adt("Cost", [cost_])])])))
        Ld, Rd = data(cl, fl, kl, l_s, l_t), data(cr, fr, kr, r_s, r_t)
        hidden = Opaque("cmr")
        z66 = z3.BitVecVal(0, 66)
        glue_cases = [
            ("Iden", [], [], z66, z66), ("Unit", [], [], z66, z66),
            ("InjL", [Ld], [], ext(al), ext(gl)), ("InjR", [Ld], [], ext(al), ext(gl)),
            ("Take", [Ld], [], ext(al), ext(gl)), ("Drop", [Ld], [], ext(al), ext(gl)),
            ("AssertL", [Ld, hidden], [], ext(al), ext(gl)), ("AssertR", [hidden, Ld], [], ext(al), ext(gl)),
            ("Case", [Ld, Rd], [], mx(ext(al), ext(ar)), mx(ext(gl), ext(gr))),
            ("Pair", [Ld, Rd], [], mx(ext(al), ext(ar)), mx(ext(gl), ext(gr))),
            # comp: the middle type is the left child's target (= the right child's source)
            ("Comp", [Ld, Rd], [l_t == r_s], ext(l_t) + mx(ext(al), ext(ar)), 1 + mx(ext(gl), ext(gr))),
            # disconnect: frames of the left child's source and target types; right source is a component of the left target
            ("Disconnect", [Ld, Rd], [z3.ULE(r_s, l_t)], ext(l_s) + ext(l_t) + mx(ext(al), ext(ar)), 2 + mx(ext(gl), ext(gr))),
        ]
        for (vn, fields, typing, acells, aframes) in glue_cases:
            with section("L1.%s RedeemData::new" % vn, log):
                inner = Adt("Inner", fields, vn)
                outs = gmach.exec_fn(f_new, [arrow, inner])
                pan = [c for (c, k, v) in outs if k == "panic"]
                if pan:
                    sol.add("L1.%s RedeemData::new never panics on well-typed children" % vn, hyp + typing + [z3.Or(pan)], vars_for_model=gv)
                badc, badf = [], []
                for (c, k, v) in outs:
                    if k == "ret":
                        nb = v.fields[4]
                        badc.append(z3.And(c, z3.Not(inv(nb.fields[0], acells, mc))))
                        badf.append(z3.And(c, z3.Not(inv(nb.fields[1], aframes, mf))))
                sol.add("L1.%s RedeemData::new: cell bound built from the children's true type widths covers the peak" % vn,
                        hyp + typing + [z3.Or(badc)], vars_for_model=gv)
                sol.add("L1.%s RedeemData::new: frame bound covers the peak" % vn, hyp + typing + [z3.Or(badf)], vars_for_model=gv)
        for fn_ in gmach.encoded:
            if fn_ not in mach.encoded:
                mach.encoded.append(fn_)
        mach.modelled += gmach.modelled

    with section("L1 RedeemData::new (all combinators)", log):
        layer1()
    problems = []
    for q in sol.run_all():
        if q["verdict"] != "holds":
            problems.append((q["name"], q["verdict"], q.get("model")))
    return mach, sol, problems, (mc, mf, iof)


def rec_peaks(t):
    """recurrence of the interpreter's peak (cells, frames) on a program tree
    as printed by `vreplay peaks` (same recurrence as in run_c07)"""
    k = t[0]
    if k in ("iden", "unit", "witness", "fail", "word", "jet"):
        return (0, 0)
    if k in ("injl", "injr", "take", "drop", "assertl", "assertr"):
        return rec_peaks(t[1])
    if k in ("case", "pair"):
        (a, f), (b, g) = rec_peaks(t[1]), rec_peaks(t[2])
        return (max(a, b), max(f, g))
    if k == "comp":
        (a, f), (b, g) = rec_peaks(t[1]), rec_peaks(t[2])
        return (t[3] + max(a, b), 1 + max(f, g))
    if k == "disconnect":
        (a, f), (b, g) = rec_peaks(t[1]), rec_peaks(t[2])
        return (t[3] + t[4] + max(a, b), 2 + max(f, g))
    raise Unsupported("unknown combinator %r" % k)


def run_c07_full(prop, mir, log, tier):
    mach, sol, problems, (mc, mf, iof) = run_c07(mir, log, tier)
    # validation of the recurrence model against the real interpreter (native, hooks on)
    nat = native(["peaks"])
    validated, mism = 0, 0
    samples = []
    if "error" in nat:
        log("  model validation could not run: %s" % nat["error"][:300])
        mism += 1
    else:
        for pr in nat["programs"]:
            rc, rf = rec_peaks(pr["tree"])
            validated += 1
            ok = (not pr.get("panicked") and pr["max_cells"] - pr["io_cells"] <= rc <= pr["extra_cells"] and
                  max(0, pr["max_frames"] - pr["io_frames"]) <= rf <= pr["extra_frames"] and
                  (not pr["tight"] or (pr["max_cells"] - pr["io_cells"] == rc)))
            if not ok:
                mism += 1
                log("  MODEL MISMATCH %s: measured=(%d cells,%d frames) io=(%d,%d) recurrence=(%d,%d) bounds=(%d,%d)" % (
                    pr["name"], pr["max_cells"], pr["max_frames"], pr["io_cells"], pr["io_frames"], rc, rf, pr["extra_cells"], pr["extra_frames"]))
            if len(samples) < 5:
                samples.append({"program": pr["name"], "measured_cells": pr["max_cells"], "measured_frames": pr["max_frames"],
                                "recurrence": [rc, rf], "bounds": [pr["extra_cells"], pr["extra_frames"]]})
        log("  recurrence model vs real interpreter: %d programs, %d mismatches" % (validated, mism))
    exit_code = 2 if mism else 0
    # a concrete program whose real run exceeds its own static bound (or dies in the machine) is a
    # violation of the property itself, demonstrated on the real code; it is reported as such
    if "error" not in nat:
        nat2 = native(["peaks_with_input"])
        if "error" in nat2:
            log("  native input family could not run: %s" % nat2["error"][:300])
            exit_code = 2
        else:
            validated += len(nat2["programs"])
            log("  native input family: %d programs run on the real machine sized by for_program" % len(nat2["programs"]))
        over = [pr for pr in nat["programs"] + nat2.get("programs", []) if over_bound(pr)]
        if over:
            path = os.path.join(replays_dir("C07"), "native_family_exceeds_bound.json")
            os.makedirs(os.path.dirname(path), exist_ok=True)
            json.dump({"query": "L0 native program family stays within its static bounds", "programs": over[:5],
                       "replay_cmd": "vreplay peaks (replay/src/main.rs)"}, open(path, "w"), indent=1)
            print("VIOLATION property=C07 replay=%s" % path)
            print("  real Bit Machine run exceeds the program's static bound: %s" % json.dumps(over[0])[:300])
            exit_code = 1
    known = load_known("C07")
    for (nm, verdict, model) in problems:
        if verdict == "inconclusive" or model is None:
            log("INCONCLUSIVE query %s" % nm)
            if exit_code == 0:
                exit_code = 2
            continue
        k = [x for x in known if x.get("status") == "open" and re.search(x["check"], nm)]
        rp = replay_c07(nm, model, log)
        if rp is True and k:
            print("KNOWN-FINDING: property=C07 %s [%s]" % (k[0]["what"], k[0]["id"]))
            continue
        if rp is True:
            path = os.path.join(replays_dir("C07"), re.sub(r"\W+", "_", nm)[:60] + ".json")
            os.makedirs(os.path.dirname(path), exist_ok=True)
            json.dump({"query": nm, "model": model, "replay_cmd": "vcheck.py C07 --replay " + path}, open(path, "w"), indent=1)
            print("VIOLATION property=C07 replay=%s" % path)
            print("  %s model=%s" % (nm, model))
            exit_code = 1
        else:
            log("NON-REPRODUCING counterexample for %s: %s (%s)" % (nm, model, rp))
            if exit_code == 0:
                exit_code = 2
    holds = [q for q in sol.queries if q.get("verdict") == "holds"]
    cov = {
        "evaluations": len(sol.queries) + validated,
        "distinct_nontrivial": len([q for q in holds if q.get("z3") != "trivial"]),
        "rule": "one evaluation = one SMT query over all 64-bit widths/bounds (z3 and cvc5 must agree) or one native model-validation program; non-trivial = needed the solver",
        "samples": [{"query": q["name"], "z3": q["z3"], "cvc5": q.get("cvc5"), "verdict": q["verdict"], "model": q.get("model")} for q in sol.queries],
        "obligations": len(sol.queries), "discharged": len(holds),
        "checker_cmd": "cargo +nightly rustc -- -Zunpretty=mir | vlib/mir2smt.py | z3 5.1.0 + cvc5 1.0.3",
        "functions_encoded": mach.encoded, "calls_modelled": sorted(set(mach.modelled)),
        "bounds": "no loop: all usize values of type widths and child bounds (frame bounds assumed <= 2^62)",
        "outside_claim": "layer 1 of DESIGN (the real interpreter under Kani on symbolic inputs) is not reachable: the interpreter's peak usage enters as a recurrence model read off exec_with_tracker, validated natively on %d concrete programs with the verif-hooks high-water marks; jets" % validated,
        "limits": {"MAX_CELLS": mc, "MAX_FRAMES": mf, "IO_EXTRA_FRAMES": iof},
        "model_validation": {"programs": validated, "mismatches": mism, "samples": samples},
        "traces_validated_against_impl": validated,
        "solver_time_s": round(sol.solver_s, 2), "exhaustive": False,
    }
    return exit_code, cov


def over_bound(j):
    """a concrete native run that dies in the machine, needs more than its static bound, or more
    cells than the machine allocated for it"""
    return bool(j.get("panicked") or not j.get("ok", True) or (j["max_cells"] - j["io_cells"] > j["extra_cells"])
                or (max(0, j["max_frames"] - j["io_frames"]) > j["extra_frames"])
                or ("cap_bits" in j and j["cap_bits"] < j["max_cells"]))


def replay_c07_family(mode, log, bad):
    """run a family of concrete programs natively (dev and release): reproduced if any program
    panics, is accepted although its bound is saturated, or uses more than its static bound"""
    hits = []
    for prof in ("dev", "release"):
        exe = build_replay(release=(prof == "release"))
        p = subprocess.run([exe, mode], stdout=subprocess.PIPE, stderr=subprocess.PIPE, text=True, timeout=900,
                           env=dict(os.environ, RUST_BACKTRACE="0"))
        if p.returncode != 0:
            hits.append("%s: family run died: %s" % (prof, " ".join(p.stderr.split())[:200]))
            continue
        try:
            progs = json.loads(p.stdout)["programs"]
        except Exception:
            hits.append("%s: unreadable output" % prof)
            continue
        for j in progs:
            if bad(j):
                hits.append("%s: %s" % (prof, json.dumps(j)[:220]))
    log("  native replay (%s family): %s" % (mode, "; ".join(hits[:3]) if hits else "all programs within their bounds / refused"))
    return True if hits else "no program of the native family violates the property"


def load_known(prop):
    p = os.path.join(VERIF, "known_findings.json")
    if not os.path.exists(p):
        return []
    return [k for k in json.load(open(p)).get("findings", []) if k["property"] == prop]


def replay_c07(nm, model, log):
    """native reproduction of a bounds-arithmetic counterexample: a program family whose
    middle type has width >= 2^64 (saturated) realises the overflowing inputs"""
    if nm.startswith("L3"):
        r = replay_c07_family("limits_family", log,
                              lambda j: (not j.get("refused", False)) or j.get("panicked_before_exec", False))
        if r is True:
            return r
        return replay_c07_family("peaks_with_input", log, over_bound)
    m = re.match(r"^L2\.(\w+) ", nm)
    if nm.startswith("L1.") or (m and "covers the interpreter" in nm):
        # a bound that does not cover the run: look for it on the concrete program families
        r = replay_c07_family("peaks", log, over_bound)
        if r is True:
            return r
        return replay_c07_family("peaks_with_input", log, over_bound)
    if not m or m.group(1) not in ("comp", "disconnect"):
        return "no native program family for %s" % nm
    res = {}
    for prof in ("dev", "release"):
        exe = build_replay(release=(prof == "release"))
        p = subprocess.run([exe, "bounds_overflow", m.group(1)], stdout=subprocess.PIPE, stderr=subprocess.PIPE, text=True, timeout=600,
                           env=dict(os.environ, RUST_BACKTRACE="0"))
        res[prof] = {"rc": p.returncode, "out": p.stdout.strip()[-400:], "err": " ".join(p.stderr.split())[:300]}
    log("  native replay (%s overflow family): dev rc=%s %s | release rc=%s %s" % (
        m.group(1), res["dev"]["rc"], (res["dev"]["err"] or res["dev"]["out"])[:160].replace("\n", " "),
        res["release"]["rc"], (res["release"]["out"] or res["release"]["err"])[:200].replace("\n", " ")))
    dev_panics = res["dev"]["rc"] != 0 and "overflow" in res["dev"]["err"]
    rel_bad = False
    try:
        j = json.loads(res["release"]["out"])
        # property: bound covers the run, or the machine refuses
        rel_bad = j["for_program_ok"] and j["extra_cells"] < j["needed_cells"]
    except Exception:
        rel_bad = res["release"]["rc"] != 0
    return True if (dev_panics or rel_bad) else "native runs satisfy the property: %s" % res


# ------------------------------------------------------------------ C14 (jet tables)
NBITS = 24


def c14_models(bits, L):
    models = dict(M.CORE_MODELS)

    def next_bit(mach, name, args):
        pos = mach.store.get("pos", 0)
        if pos >= NBITS:
            # the harness stream has NBITS bits at most
            return [(M.T(), "ret", Adt("Option", [], "None"), {})]
        b = z3.Extract(NBITS - 1 - pos, NBITS - 1 - pos, bits) == 1
        have = z3.UGT(L, pos)
        return [(z3.Not(have), "ret", Adt("Option", [], "None"), {}),
                (z3.And(have, z3.Not(b)), "ret", Adt("Option", [z3.BoolVal(False)], "Some"), {"pos": pos + 1}),
                (z3.And(have, b), "ret", Adt("Option", [z3.BoolVal(True)], "Some"), {"pos": pos + 1})]

    models[r"^<BitIter<I> as Iterator>::next$"] = next_bit
    models[r"^<bit_encoding::decode::Error as Into<bit_encoding::decode::Error>>::into$"] = \
        lambda mach, name, args: [(M.T(), "ret", args[0])]
    models[r"^BitWriter::<&mut dyn std::io::Write>::write_bits_be$"] = \
        lambda mach, name, args: [(M.T(), "ret", Opaque("written", {"n": args[1], "len": args[2]}))]
    models[r"^std::fmt::Formatter::<'_>::write_str$"] = \
        lambda mach, name, args: [(M.T(), "ret", Opaque("wrote", {"s": args[1]}))]
    return models


class EnumVal:
    """a value of a field-less enum with symbolic discriminant"""

    def __init__(self, d):
        self.d = d


def table_of(mach, f, d, nvar, getter):
    """execute a `match self {..}` function for a symbolic discriminant; returns {k: python value}"""
    outs = mach.exec_fn(f, [Ref(EnumVal(d))] + [Ref(Opaque("arg%d" % i)) for i in range(1, len(f.params))])
    tab = {}
    for (c, k, v) in outs:
        if k == "panic":
            continue
        # path condition is d == k
        s = z3.Solver()
        s.add(c)
        if s.check() != z3.sat:
            continue
        kk = s.model().eval(d, model_completion=True).as_long()
        s.add(d != kk)
        if s.check() != z3.unsat:
            raise Unsupported("path of %s is not a single discriminant" % f.name)
        tab[kk] = getter(v)
    return tab


def run_c14(mir_text, log, tier):
    funcs = M.parse_mir(mir_text)
    bits = z3.BitVec("bits", NBITS)
    L = z3.BitVec("len", 8)
    mach = M.Machine(funcs, c14_models(bits, L), max_paths=200000)
    # discriminant switch on a symbolic enum value
    orig_rvalue = mach.rvalue

    def rvalue(env, f, dst, rv):
        m = re.match(r"^discriminant\((.+)\)$", rv.strip())
        if m:
            v = mach.read_place(env, m.group(1))
            if isinstance(v, EnumVal):
                return v.d
        return orig_rvalue(env, f, dst, rv)
    mach.rvalue = rvalue
    sol = Solver2(log, timeout_s=(900 if tier == "quick" else 2400))
    fams = {}
    d = z3.BitVec("d", 64)
    for fam, mod in (("Core", "core"), ("Elements", "elements"), ("Bitcoin", "bitcoin")):
        with section("K14 %s: tables read from encode/fmt/source_ty/target_ty" % fam, log):
            pre = "init::%s::" % mod

            def fn(suffix, ret=None, params=None):
                c = [g for g in funcs if g.name.startswith(pre) and g.name.endswith("::" + suffix)
                     and (ret is None or g.ret.startswith(ret)) and (params is None or [t for _, t in g.params] == params)]
                if len(c) != 1:
                    raise Unsupported("%s::%s: %d MIR bodies" % (fam, suffix, len(c)))
                return c[0]
            fmts = [g for g in funcs if g.name.startswith(pre) and g.name.endswith("::fmt") and g.params[0][1].startswith("&") and g.params[0][1].lstrip("&").split("::")[-1] == fam]
            if len(fmts) != 2:
                raise Unsupported("%s: expected Debug and Display fmt, found %d" % (fam, len(fmts)))

            def strs(g):
                return table_of(mach, g, d, None, lambda v: v.data["s"].data["s"] if isinstance(v, Opaque) and v.tag == "wrote" else None)
            t1, t2 = strs(fmts[0]), strs(fmts[1])
            # Debug prints the variant identifier (CamelCase), Display the jet name (snake_case)
            dbg, disp = (t1, t2) if all(re.match(r'^"[A-Z]', x or "") for x in t1.values()) else (t2, t1)
            if not dbg or any(v is None for v in dbg.values()) or any(v is None for v in disp.values()):
                raise Unsupported("%s: fmt tables incomplete" % fam)
            variant = {k: fam + "::" + v.strip('"') for k, v in dbg.items()}
            disc = {v: k for k, v in variant.items()}
            enc = table_of(mach, fn("encode"), d, None, lambda v: (z3.simplify(v.data["n"]).as_long(), z3.simplify(v.data["len"]).as_long()))
            src = table_of(mach, fn("source_ty"), d, None, lambda v: v)
            tgt = table_of(mach, fn("target_ty"), d, None, lambda v: v)

            def tyname(v):
                x = v.fields[0]
                while isinstance(x, Ref):
                    x = x.val
                return x.data["s"] if isinstance(x, Opaque) else repr(x)
            fams[fam] = {"variant": variant, "disc": disc, "enc": enc, "display": {k: v.strip('"') for k, v in disp.items()},
                         "src": {k: tyname(v) for k, v in src.items()}, "tgt": {k: tyname(v) for k, v in tgt.items()},
                         "decode": fn("decode"), "from_str": fn("from_str")}
            n = len(variant)
            if not (len(enc) == n and len(src) == n and len(tgt) == n and len(disp) == n):
                raise Unsupported("%s: tables have different sizes" % fam)
            log("  %s: %d variants, code lengths %d..%d bits" % (fam, n, min(l for _, l in enc.values()), max(l for _, l in enc.values())))

    def ite_table(tab, dd, width):
        r = z3.BitVecVal(0, width)
        for k, v in tab.items():
            r = z3.If(dd == k, z3.BitVecVal(v, width), r)
        return r

    def code_bits(n, ln):
        """the NBITS-bit string whose first `ln` bits are the code (n, ln) (python ints)"""
        return n << (NBITS - ln)

    strid = {}

    def sid(x):
        return strid.setdefault(x, len(strid) + 1)

    for fam, F in fams.items():
        with section("K14.0-K14.4 %s::{decode,encode,from_str,fmt}" % fam, log):
            nvar = len(F["variant"])
            mach.store = {}
            outs = mach.exec_fn(F["decode"], [Ref(Opaque("stream"))])
            stores = mach.out_stores
            log("  %s::decode: %d paths" % (fam, len(outs)))
            pan = [c for (c, k, v) in outs if k == "panic"]
            dom = [z3.ULE(L, NBITS)]
            # K14.0 totality: some outcome applies to every (bits, len); none is a panic/unreachable
            sol.add("K14.0 %s::decode is total on every string of <= %d bits (no panic / unreachable)" % (fam, NBITS),
                    dom + ([z3.Or(pan)] if pan else [z3.BoolVal(False)]), vars_for_model=[bits, L])
            sol.add("K14.0b %s::decode: every string takes some path" % fam,
                    dom + [z3.Not(z3.Or([c for (c, k, v) in outs]))], vars_for_model=[bits, L])
            # K14.1 decode -> encode
            bad1, bad_err = [], []
            for (c, k, v), st in zip(outs, stores):
                if k != "ret":
                    continue
                used = st.get("pos", 0)
                if v.variant == "Ok":
                    vn = "::".join(v.fields[0].name.split("::")[-2:])
                    if vn not in F["disc"]:
                        raise Unsupported("decode returns unknown variant %s" % vn)
                    n_, ln = F["enc"][F["disc"][vn]]
                    mask = ((1 << ln) - 1) << (NBITS - ln)
                    same = z3.And(ln == used, (bits & mask) == code_bits(n_, ln)) if ln <= NBITS else z3.BoolVal(False)
                    bad1.append(z3.And(c, z3.Not(same)))
                else:
                    en = v.fields[0].name
                    if en.endswith("EndOfStream"):
                        # only when the stream really ended at the cursor
                        bad_err.append(z3.And(c, z3.UGT(L, used)))
                    elif not en.endswith("InvalidJet"):
                        raise Unsupported("decode returns error %s" % en)
            sol.add("K14.1 %s: a decoded jet re-encodes to exactly the consumed bits (codes injective and prefix-free)" % fam,
                    dom + [z3.Or(bad1)], vars_for_model=[bits, L])
            sol.add("K14.1b %s: EndOfStream only when the bits ran out" % fam, dom + [z3.Or(bad_err)] if bad_err else [z3.BoolVal(False)],
                    vars_for_model=[bits, L])
            # K14.2 encode -> decode: symbolic discriminant, garbage after the code
            dd = z3.BitVec("dj", 64)
            nn = ite_table({k: code_bits(n_, ln) for k, (n_, ln) in F["enc"].items()}, dd, NBITS)
            ll = ite_table({k: ln for k, (n_, ln) in F["enc"].items()}, dd, 8)
            garbage = z3.BitVec("garbage", NBITS)
            maskd = ite_table({k: ((1 << ln) - 1) << (NBITS - ln) for k, (n_, ln) in F["enc"].items()}, dd, NBITS)
            link = [z3.ULT(dd, nvar), bits == (nn | (garbage & ~maskd)), L == NBITS]
            bad2 = []
            for (c, k, v), st in zip(outs, stores):
                if k != "ret":
                    continue
                if v.variant == "Ok":
                    dv = F["disc"]["::".join(v.fields[0].name.split("::")[-2:])]
                    bad2.append(z3.And(c, z3.Not(z3.And(dd == dv, ll == st.get("pos", 0)))))
                else:
                    bad2.append(c)
            sol.add("K14.2 %s: every jet's code decodes back to it, consuming exactly the code" % fam, link + [z3.Or(bad2)],
                    vars_for_model=[dd, garbage])
            # K14.4 names: parse(display(j)) == j
            sv = z3.Int("s_id")
            saved_models = dict(mach.models)

            def str_eq(mach_, name, args):
                a, b = args
                def ident(x):
                    while isinstance(x, Ref):
                        x = x.val
                    if isinstance(x, Opaque) and x.tag == "str":
                        return z3.IntVal(sid(x.data["s"].strip('"')))
                    if isinstance(x, Opaque) and x.tag == "symstr":
                        return sv
                    raise Unsupported("str eq on %r" % (x,))
                return [(M.T(), "ret", ident(a) == ident(b))]
            mach.models = dict(saved_models)
            mach.models[r"^<str as PartialEq>::eq$"] = str_eq
            mach.models[r"^<str as ToOwned>::to_owned$"] = lambda m_, n_, a_: [(M.T(), "ret", Opaque("string"))]
            outs_p = mach.exec_fn(F["from_str"], [Ref(Opaque("symstr"))])
            mach.models = saved_models
            dd2 = z3.BitVec("dn", 64)
            name_of = z3.IntVal(0)
            for k, nm in F["display"].items():
                name_of = z3.If(dd2 == k, z3.IntVal(sid(nm)), name_of)
            bad4 = []
            for (c, k, v) in outs_p:
                if k == "panic":
                    bad4.append(c)
                elif isinstance(v, Adt) and v.variant == "Ok":
                    bad4.append(z3.And(c, dd2 != F["disc"]["::".join(v.fields[0].name.split("::")[-2:])]))
                else:
                    bad4.append(c)
            sol.add("K14.4 %s: every jet's name parses back to it" % fam, [z3.ULT(dd2, nvar), sv == name_of, z3.Or(bad4)],
                    vars_for_model=[dd2])
            # distinct display names
            names = list(F["display"].values())
            if len(set(names)) != len(names):
                # two jets print the same name: K14.4 above is then satisfiable (one of them cannot parse back)
                log("  %s: %d display names are shared by several jets" % (fam, len(names) - len(set(names))))
            F["outs"], F["stores"] = outs, stores

    # K14.3 Core vs Elements namesakes behind the prefix bit 0
    with section("K14.3 Core jets vs their Elements namesakes", log):
        if "Core" not in fams or "Elements" not in fams:
            raise Unsupported("tables of Core or Elements are not available")
        C, E = fams["Core"], fams["Elements"]
        dc = z3.BitVec("dc", 64)
        ncore = len(C["variant"])
        code_c = ite_table({k: code_bits(n_, ln) for k, (n_, ln) in C["enc"].items()}, dc, NBITS)
        len_c = ite_table({k: ln for k, (n_, ln) in C["enc"].items()}, dc, 8)
        link = [z3.ULT(dc, ncore), bits == z3.LShR(code_c, 1), L == NBITS]
        name_c = ite_table({k: sid("name:" + v) for k, v in C["display"].items()}, dc, 32)
        src_c = ite_table({k: sid("ty:" + v) for k, v in C["src"].items()}, dc, 32)
        tgt_c = ite_table({k: sid("ty:" + v) for k, v in C["tgt"].items()}, dc, 32)
        bad3 = []
        for (c, k, v), st in zip(E["outs"], E["stores"]):
            if k != "ret":
                continue
            if v.variant == "Ok":
                de = E["disc"]["::".join(v.fields[0].name.split("::")[-2:])]
                ok = z3.And(len_c + 1 == st.get("pos", 0),
                            name_c == sid("name:" + E["display"][de]),
                            src_c == sid("ty:" + E["src"][de]), tgt_c == sid("ty:" + E["tgt"][de]))
                bad3.append(z3.And(c, z3.Not(ok)))
            else:
                bad3.append(c)
        sol.add("K14.3 each Core jet, behind the family prefix bit, is an Elements jet with the same name and types",
                link + [z3.Or(bad3)], vars_for_model=[dc])
    problems = []
    for q in sol.run_all():
        if q["verdict"] != "holds":
            problems.append((q["name"], q["verdict"], q.get("model")))
    return mach, sol, problems, fams


def run_c14_full(prop, mir, log, tier):
    mach, sol, problems, fams = run_c14(mir, log, tier)
    # translator validation: the tables extracted from MIR against the native build
    nat = native(["jets"])
    validated, mism = 0, 0
    samples = []
    if "error" in nat:
        log("  translator validation could not run: %s" % nat["error"][:300])
        mism = 1
    else:
        for fam, F in fams.items():
            rows = nat[fam]
            if len(rows) != len(F["variant"]):
                mism += 1
                log("  TABLE SIZE MISMATCH %s: MIR %d native %d" % (fam, len(F["variant"]), len(rows)))
            byvariant = {r["variant"]: r for r in rows}
            for k, nm in F["display"].items():
                validated += 1
                r = byvariant.get(F["variant"][k].split("::")[-1])
                if r is not None and r["name"] != nm:
                    r = None
                n_, ln = F["enc"][k]
                ok = r is not None and r["code"] == format(n_, "0%db" % ln) and r["decodes_back"]
                if not ok:
                    mism += 1
                    if mism < 6:
                        log("  TRANSLATOR MISMATCH %s %s: MIR code=%s native=%s" % (fam, nm, format(n_, "0%db" % ln), r))
                if len(samples) < 5 and k % 97 == 0:
                    samples.append({"family": fam, "jet": nm, "code": format(n_, "0%db" % ln), "native": r})
        log("  translator validation: %d jets (codes read from MIR vs native encode/decode), %d mismatches" % (validated, mism))
    exit_code = 2 if mism else 0
    for (nm, verdict, model) in problems:
        if verdict == "inconclusive" or model is None:
            log("INCONCLUSIVE query %s" % nm)
            if exit_code == 0:
                exit_code = 2
            continue
        rp = replay_c14(nm, model, fams, log)
        if rp is True:
            path = os.path.join(replays_dir("C14"), re.sub(r"\W+", "_", nm)[:60] + ".json")
            os.makedirs(os.path.dirname(path), exist_ok=True)
            json.dump({"query": nm, "model": model, "replay_cmd": "vcheck.py C14 --replay " + path}, open(path, "w"), indent=1)
            print("VIOLATION property=C14 replay=%s" % path)
            print("  %s model=%s" % (nm, model))
            exit_code = 1
        else:
            log("NON-REPRODUCING counterexample for %s: %s (%s)" % (nm, model, rp))
            if exit_code == 0:
                exit_code = 2
    holds = [q for q in sol.queries if q.get("verdict") == "holds"]
    cov = {
        "evaluations": len(sol.queries) + validated,
        "distinct_nontrivial": len(holds),
        "rule": "one evaluation = one SMT query over all 24-bit strings / all stream lengths / all discriminants of a family (z3 and cvc5 must agree), or one translator-validation jet",
        "samples": [{"query": q["name"], "z3": q["z3"], "cvc5": q.get("cvc5"), "verdict": q["verdict"], "model": q.get("model")} for q in sol.queries],
        "obligations": len(sol.queries), "discharged": len(holds),
        "checker_cmd": "cargo +nightly rustc -- -Zunpretty=mir | vlib/mir2smt.py | z3 5.1.0 + cvc5 1.0.3",
        "functions_encoded": [f for f in mach.encoded if "init::" in f],
        "calls_modelled": sorted(set(mach.modelled)),
        "bounds": "every bit string of up to 24 bits (longest jet code is 22 bits), every stream length 0..24, every discriminant of Core (368), Elements (471), Bitcoin (428)",
        "outside_claim": "equality of CMRs/types/costs with the C tables and extern declarations vs C prototypes (no input to quantify over; C not encodable); BitIter/BitWriter themselves are modelled here (bit stream with a cursor) and checked on the real code under C13",
        "families": {k: {"variants": len(v["variant"])} for k, v in fams.items()},
        "translator_validation": {"jets": validated, "mismatches": mism, "samples": samples},
        "traces_validated_against_impl": validated,
        "solver_time_s": round(sol.solver_s, 2), "exhaustive": False,
    }
    return exit_code, cov


def replay_c14(nm, model, fams, log):
    """native reproduction: run the real decoder/encoder on the model's input"""
    m = re.match(r"^K14\.\w+ (Core|Elements|Bitcoin)", nm)
    fam = m.group(1) if m else "Core"
    if "bits" in model:
        r = native(["jet_decode", fam, format(model["bits"], "024b")[:max(0, min(24, model.get("len", 24)))]])
        log("  native decode of %s: %s" % (format(model["bits"], "024b"), r))
        if "error" in r:
            return True if "panicked" in r["error"] else r["error"]
        if r["result"] == "ok":
            return True if not (r["reencoded"] == r["consumed_bits"]) else "native decoder/encoder agree"
        if r["result"] == "EndOfStream":
            return True if r["consumed"] < len(r.get("input", "")) else "native behaviour matches"
        return "native behaviour matches"
    key = [k for k in ("dj", "dn", "dc") if k in model]
    if key:
        F = fams[fam if key[0] != "dc" else "Core"]
        jet = F["variant"].get(model[key[0]], "?").split("::")[-1]
        r = native(["jet_check", fam if key[0] != "dc" else "Core", jet])
        log("  native check of %s: %s" % (jet, r))
        if "error" in r:
            return True
        return True if not (r["decodes_back"] and r["parses_back"] and r.get("namesake_ok", True)) else "native tables agree"
    return "no replay for this query"


def replay_file(path):
    d = json.load(open(path))

    def log(x):
        print(x)
    if d.get("property") == "C05" or d["query"].startswith(("A.", "P.", "E.")):
        # C05 (interpreter regions): the native reproduction is the program family run by the real
        # Bit Machine against the big-step evaluator
        print("query: %s\nmodel: %s" % (d["query"], d.get("model")))
        r = replay_c07_family("arms_family", log, lambda j: not j.get("agree", False))
        print("reproduced: %s" % (r is True))
        return 1 if r is True else 0
    if d["query"].startswith("K14"):
        print("replay of C14 models needs the tables: run `vcheck.py C14` (it replays every counterexample natively)")
        return 2
    r = replay_c07(d["query"], d["model"], log) if d["query"].startswith("L") else replay_c19(d["query"], d["model"], log)
    print("reproduced: %s" % (r is True))
    return 1 if r is True else 0
