//! Native replay of solver models against the real code of /repo (ordinary build).
use simplicity::elements::encode::Encodable;
use simplicity::{bitcoin, Cost};

fn cost_val(c: Cost) -> u64 {
    c.to_string().parse().unwrap()
}

fn budget(args: &[String]) {
    let cost: u32 = args[0].parse().unwrap();
    let mut stack: Vec<Vec<u8>> = args[1..]
        .iter()
        .map(|a| vec![0u8; a.parse::<usize>().unwrap()])
        .collect();
    let cost = Cost::from_milliweight(cost);
    let n = stack.len();
    let ser = stack.consensus_encode(&mut std::io::sink()).unwrap();
    let valid = cost.is_budget_valid(&stack);
    let pad = cost.get_padding(&stack);
    let mut out = format!(
        "{{\"serialized_len\": {}, \"valid\": {}, \"padding_len\": {}",
        ser,
        valid,
        pad.as_ref().map(|p| p.len().to_string()).unwrap_or("null".into())
    );
    if let Some(p) = pad {
        let wellformed = p[0] == 0x50 && p[1..].iter().all(|b| *b == 0);
        stack.push(p.clone());
        let with = cost.is_budget_valid(&stack);
        stack.pop();
        let shorter = if p.len() >= 2 {
            stack.push(p[..p.len() - 1].to_vec());
            let v = cost.is_budget_valid(&stack);
            stack.pop();
            v
        } else {
            false
        };
        let cs = |x: usize| if x < 253 { 1 } else if x <= 0xffff { 3 } else { 5 };
        out += &format!(
            ", \"valid_with_annex\": {}, \"valid_with_shorter_annex\": {}, \"count_cs_stable\": {}, \"annex_wellformed\": {}",
            with, shorter, cs(n) == cs(n + 1), wellformed
        );
    }
    println!("{}}}", out);
}

fn convert(args: &[String]) {
    let v: Vec<u64> = args.iter().map(|a| a.parse().unwrap()).collect();
    let (c1, c2, w1, w2, wu) = (v[0] as u32, v[1] as u32, v[2], v[3], v[4]);
    let w = |c: u32| bitcoin::Weight::from(Cost::from_milliweight(c)).to_wu();
    let c = |w: u64| cost_val(Cost::from(bitcoin::Weight::from_wu(w)));
    let w1c = c(w1);
    println!(
        "{{\"c1_w\": {}, \"c2_w\": {}, \"w1_c\": {}, \"w2_c\": {}, \"w1_c_w\": {}, \"c1_bw\": {}, \"wu_c\": {}}}",
        w(c1), w(c2), w1c, c(w2), w(w1c as u32), w(c1), c(wu)
    );
}

use simplicity::node::{ConstructNode, CoreConstructible, DisconnectConstructible, Inner};
use simplicity::types::Context;
use simplicity::{BitMachine, RedeemNode, Word};
use std::sync::Arc;

type CN<'b> = Arc<ConstructNode<'b>>;

fn tree(n: &RedeemNode) -> String {
    let w = |t: &simplicity::types::Final| t.bit_width();
    match n.inner() {
        Inner::Iden => "[\"iden\"]".into(),
        Inner::Unit => "[\"unit\"]".into(),
        Inner::Witness(_) => "[\"witness\"]".into(),
        Inner::Fail(_) => "[\"fail\"]".into(),
        Inner::Word(_) => "[\"word\"]".into(),
        Inner::Jet(_) => "[\"jet\"]".into(),
        Inner::InjL(c) => format!("[\"injl\",{}]", tree(c)),
        Inner::InjR(c) => format!("[\"injr\",{}]", tree(c)),
        Inner::Take(c) => format!("[\"take\",{}]", tree(c)),
        Inner::Drop(c) => format!("[\"drop\",{}]", tree(c)),
        Inner::AssertL(c, _) => format!("[\"assertl\",{}]", tree(c)),
        Inner::AssertR(_, c) => format!("[\"assertr\",{}]", tree(c)),
        Inner::Case(l, r) => format!("[\"case\",{},{}]", tree(l), tree(r)),
        Inner::Pair(l, r) => format!("[\"pair\",{},{}]", tree(l), tree(r)),
        Inner::Comp(l, r) => format!("[\"comp\",{},{},{}]", tree(l), tree(r), w(&l.arrow().target)),
        Inner::Disconnect(l, r) => format!(
            "[\"disconnect\",{},{},{},{}]",
            tree(l),
            tree(r),
            w(&l.arrow().source),
            w(&l.arrow().target)
        ),
    }
}

fn has_case(n: &RedeemNode) -> bool {
    match n.inner() {
        Inner::Case(..) | Inner::AssertL(..) | Inner::AssertR(..) => true,
        Inner::InjL(c) | Inner::InjR(c) | Inner::Take(c) | Inner::Drop(c) => has_case(c),
        Inner::Pair(l, r) | Inner::Comp(l, r) | Inner::Disconnect(l, r) => has_case(l) || has_case(r),
        _ => false,
    }
}

/// Execute concrete programs on the real Bit Machine (verif-hooks high-water marks)
/// and print what the recurrence model of /verif/vlib/mircheck.py is validated against.
fn peaks() {
    let mut out: Vec<String> = vec![];
    let mut run = |name: &str, build: &dyn for<'b> Fn(&Context<'b>) -> CN<'b>| {
        let redeem = Context::with_context(|ctx| build(&ctx).finalize_unpruned().expect("finalize"));
        let mut mac = BitMachine::for_program(&redeem).expect("limits");
        let res = std::panic::catch_unwind(std::panic::AssertUnwindSafe(|| mac.exec(&redeem, &simplicity::jet::CoreEnv::new())));
        let panicked = res.is_err();
        let res: Result<(), ()> = match res {
            Ok(Ok(_)) => Ok(()),
            _ => Err(()),
        };
        let b = redeem.bounds();
        let (sw, tw) = (redeem.arrow().source.bit_width(), redeem.arrow().target.bit_width());
        out.push(format!(
            "{{\"name\":\"{}\",\"panicked\":{},\"ok\":{},\"tree\":{},\"max_cells\":{},\"max_frames\":{},\"io_cells\":{},\"io_frames\":{},\"extra_cells\":{},\"extra_frames\":{},\"tight\":{}}}",
            name,
            panicked,
            res.is_ok(),
            tree(&redeem),
            mac.verif_max_cells(),
            mac.verif_max_frames(),
            sw + tw,
            (sw > 0) as usize + (tw > 0) as usize,
            b.extra_cells,
            b.extra_frames,
            !has_case(&redeem)
        ));
    };
    run("unit", &|ctx| CN::unit(ctx));
    run("comp(word8,unit)", &|ctx| CN::comp(&CN::const_word(ctx, Word::u8(0xa5)), &CN::unit(ctx)).unwrap());
    run("word16", &|ctx| CN::const_word(ctx, Word::u16(0xbeef)));
    run("comp(pair(w8,w8),take(iden))", &|ctx| {
        let p = CN::pair(&CN::const_word(ctx, Word::u8(1)), &CN::const_word(ctx, Word::u8(2))).unwrap();
        CN::comp(&p, &CN::take(&CN::iden(ctx))).unwrap()
    });
    run("comp(comp(w8,pair(iden,iden)),drop(iden))", &|ctx| {
        let a = CN::comp(&CN::const_word(ctx, Word::u8(1)), &CN::pair(&CN::iden(ctx), &CN::iden(ctx)).unwrap()).unwrap();
        CN::comp(&a, &CN::drop_(&CN::iden(ctx))).unwrap()
    });
    run("comp(w32,comp(pair(iden,iden),comp(take(iden),unit)))", &|ctx| {
        let inner = CN::comp(&CN::take(&CN::iden(ctx)), &CN::unit(ctx)).unwrap();
        let mid = CN::comp(&CN::pair(&CN::iden(ctx), &CN::iden(ctx)).unwrap(), &inner).unwrap();
        CN::comp(&CN::const_word(ctx, Word::u32(7)), &mid).unwrap()
    });
    for bit in 0..2u8 {
        run(if bit == 0 { "case-left(heavy)" } else { "case-right(light)" }, &|ctx| {
            // pair(bit, unit) : 1 -> 2 x 1 ; case(l, r) : (1+1) x 1 -> 1
            let sel = CN::pair(&CN::const_word(ctx, Word::u1(bit)), &CN::unit(ctx)).unwrap();
            let heavy = CN::comp(&CN::const_word(ctx, Word::u64(9)), &CN::unit(ctx)).unwrap();
            let l = CN::comp(&CN::unit(ctx), &heavy).unwrap();
            let r = CN::unit(ctx);
            CN::comp(&sel, &CN::case(&l, &r).unwrap()).unwrap()
        });
    }
    run("injr(comp(w8,iden))", &|ctx| CN::injr(&CN::comp(&CN::const_word(ctx, Word::u8(3)), &CN::iden(ctx)).unwrap()));
    run("disconnect(pair(unit,unit),unit)", &|ctx| {
        let left = CN::pair(&CN::unit(ctx), &CN::unit(ctx)).unwrap();
        CN::disconnect(&left, &Some(CN::unit(ctx))).unwrap()
    });
    run("disconnect(pair(take(iden),unit),unit)", &|ctx| {
        let left = CN::pair(&CN::take(&CN::iden(ctx)), &CN::unit(ctx)).unwrap();
        CN::disconnect(&left, &Some(CN::unit(ctx))).unwrap()
    });
    run("comp(w8,disconnect(pair(take(iden),drop(iden)),comp(w16,unit)))", &|ctx| {
        // left: 2^256 x 2^8 -> 2^256 x 2^8 ; right: 2^8 -> 1 with an inner frame
        let left = CN::pair(&CN::take(&CN::iden(ctx)), &CN::drop_(&CN::iden(ctx))).unwrap();
        let right = CN::comp(&CN::unit(ctx), &CN::comp(&CN::const_word(ctx, Word::u16(5)), &CN::unit(ctx)).unwrap()).unwrap();
        let d = CN::disconnect(&left, &Some(right)).unwrap();
        CN::comp(&CN::const_word(ctx, Word::u8(1)), &d).unwrap()
    });
    // asymmetric shapes: the *right* child is the heavy one
    run("disconnect(pair(unit,unit),comp(w8,iden))", &|ctx| {
        let left = CN::pair(&CN::unit(ctx), &CN::unit(ctx)).unwrap();
        let right = CN::comp(&CN::const_word(ctx, Word::u8(0xa5)), &CN::iden(ctx)).unwrap();
        CN::disconnect(&left, &Some(right)).unwrap()
    });
    run("comp(disconnect(pair(unit,unit),comp(w16,iden)),unit)", &|ctx| {
        let left = CN::pair(&CN::unit(ctx), &CN::unit(ctx)).unwrap();
        let right = CN::comp(&CN::const_word(ctx, Word::u16(0xa5a5)), &CN::iden(ctx)).unwrap();
        CN::comp(&CN::disconnect(&left, &Some(right)).unwrap(), &CN::unit(ctx)).unwrap()
    });
    run("comp(unit,comp(w32,unit))", &|ctx| {
        CN::comp(&CN::unit(ctx), &CN::comp(&CN::const_word(ctx, Word::u32(1)), &CN::unit(ctx)).unwrap()).unwrap()
    });
    run("pair(unit,comp(w16,iden))", &|ctx| {
        CN::pair(&CN::unit(ctx), &CN::comp(&CN::const_word(ctx, Word::u16(1)), &CN::iden(ctx)).unwrap()).unwrap()
    });
    run("pair(comp(w16,iden),unit)", &|ctx| {
        CN::pair(&CN::comp(&CN::const_word(ctx, Word::u16(1)), &CN::iden(ctx)).unwrap(), &CN::unit(ctx)).unwrap()
    });
    for bit in 0..2u8 {
        run(if bit == 0 { "case-left(light)" } else { "case-right(heavy)" }, &|ctx| {
            let sel = CN::pair(&CN::const_word(ctx, Word::u1(bit)), &CN::unit(ctx)).unwrap();
            let heavy = CN::comp(&CN::unit(ctx), &CN::comp(&CN::const_word(ctx, Word::u64(9)), &CN::unit(ctx)).unwrap()).unwrap();
            CN::comp(&sel, &CN::case(&CN::unit(ctx), &heavy).unwrap()).unwrap()
        });
    }
    run("take/drop/injl chain", &|ctx| {
        let inner = CN::comp(&CN::const_word(ctx, Word::u8(3)), &CN::unit(ctx)).unwrap();
        let p = CN::pair(&CN::iden(ctx), &CN::iden(ctx)).unwrap();
        CN::comp(&p, &CN::take(&CN::injl(&CN::drop_(&CN::take(&inner))))).unwrap()
    });
    println!("{{\"programs\":[{}]}}", out.join(","));
}

/// Programs with a non-empty source type, run with `BitMachine::input`.
fn peaks_with_input() {
    use simplicity::Value;
    let mut out: Vec<String> = vec![];
    let mut run = |name: &str, input: Value, build: &dyn for<'b> Fn(&Context<'b>) -> CN<'b>| {
        let redeem = Context::with_context(|ctx| build(&ctx).finalize_unpruned().expect("finalize"));
        let r = std::panic::catch_unwind(std::panic::AssertUnwindSafe(|| {
            let mut mac = BitMachine::for_program(&redeem).expect("limits");
            mac.input(&input).expect("input type");
            let ok = mac.exec(&redeem, &simplicity::jet::CoreEnv::new()).is_ok();
            (ok, mac.verif_max_cells(), mac.verif_max_frames(), mac.verif_capacity())
        }));
        let b = redeem.bounds();
        let (sw, tw) = (redeem.arrow().source.bit_width(), redeem.arrow().target.bit_width());
        let (panicked, ok, mc, mf, cap) = match r {
            Ok((ok, mc, mf, cap)) => (false, ok, mc, mf, cap),
            Err(_) => (true, false, 0, 0, (0, 0)),
        };
        out.push(format!(
            "{{\"name\":\"{}\",\"panicked\":{},\"ok\":{},\"tree\":{},\"max_cells\":{},\"max_frames\":{},\"io_cells\":{},\"io_frames\":{},\"extra_cells\":{},\"extra_frames\":{},\"cap_bits\":{},\"tight\":{}}}",
            name, panicked, ok, tree(&redeem), mc, mf, sw + tw, (sw > 0) as usize + (tw > 0) as usize,
            b.extra_cells, b.extra_frames, cap.0, !has_case(&redeem)
        ));
    };
    run("jet add_8:u16", Value::u16(0xbeef), &|ctx| CN::jet(ctx, &simplicity::jet::Core::Add8));
    run("comp(jet add_32, unit):u64->1", Value::u64(77), &|ctx| {
        CN::comp(&CN::jet(ctx, &simplicity::jet::Core::Add32), &CN::unit(ctx)).unwrap()
    });
    run("comp(pair(iden,iden), jet add_8):u8", Value::u8(200), &|ctx| {
        CN::comp(&CN::pair(&CN::iden(ctx), &CN::iden(ctx)).unwrap(), &CN::jet(ctx, &simplicity::jet::Core::Add8)).unwrap()
    });
    run("comp(take(iden), jet low_8 after unit):u64xu64", Value::product(Value::u64(1), Value::u64(2)), &|ctx| {
        // take(jet add_32) : u64 x B -> 2 x u32 with B forced to u64 by a pair with drop(jet add_32)
        CN::pair(&CN::take(&CN::jet(ctx, &simplicity::jet::Core::Add32)), &CN::drop_(&CN::jet(ctx, &simplicity::jet::Core::Add32))).unwrap()
    });
    run("case on input bit (heavy right)", Value::product(Value::u1(1), Value::unit()), &|ctx| {
        let heavy = CN::comp(&CN::unit(ctx), &CN::comp(&CN::const_word(ctx, Word::u64(9)), &CN::unit(ctx)).unwrap()).unwrap();
        CN::case(&CN::unit(ctx), &heavy).unwrap()
    });
    run("case on input bit (frames on the light side)", Value::product(Value::u1(1), Value::unit()), &|ctx| {
        // left: many cells, one frame; right: few cells, four frames
        let l = CN::comp(&CN::unit(ctx), &CN::comp(&CN::const_word(ctx, Word::u64(9)), &CN::unit(ctx)).unwrap()).unwrap();
        let mut r = CN::comp(&CN::const_word(ctx, Word::u1(1)), &CN::unit(ctx)).unwrap();
        for _ in 0..4 {
            r = CN::comp(&CN::unit(ctx), &r).unwrap();
        }
        CN::comp(&CN::case(&l, &r).unwrap(), &CN::unit(ctx)).unwrap()
    });
    println!("{{\"programs\":[{}]}}", out.join(","));
}

/// A 65..70-byte program whose middle type has a saturated (>= 2^64) bit width
/// and whose children need at least one extra cell.
fn bounds_overflow(kind: &str) {
    let kind = kind.to_string();
    let redeem = Context::with_context(|ctx| {
        let mut x = CN::injl(&CN::unit(&ctx));
        for _ in 0..64 {
            x = CN::pair(&x, &x).unwrap();
        }
        let c = CN::comp(&CN::injl(&CN::unit(&ctx)), &CN::unit(&ctx)).unwrap();
        let prog = if kind == "comp" {
            let l = CN::pair(&x, &c).unwrap();
            CN::comp(&l, &CN::unit(&ctx)).unwrap()
        } else {
            // left: 2^256 x 1 -> (huge x 1) x 1 ; right: 1 -> 1
            let big = CN::comp(&CN::unit(&ctx), &CN::pair(&x, &c).unwrap()).unwrap();
            let left = CN::pair(&big, &CN::unit(&ctx)).unwrap();
            let d = CN::disconnect(&left, &Some(CN::unit(&ctx))).unwrap();
            CN::comp(&d, &CN::unit(&ctx)).unwrap()
        };
        prog.finalize_unpruned().expect("finalize")
    });
    let b = redeem.bounds();
    let mac = BitMachine::for_program(&redeem);
    let ok = mac.is_ok();
    let exec = match mac {
        Ok(mut m) => match std::panic::catch_unwind(std::panic::AssertUnwindSafe(|| m.exec(&redeem, &simplicity::jet::CoreEnv::new()).is_ok())) {
            Ok(r) => format!("\"returned {}\"", r),
            Err(_) => "\"panicked\"".to_string(),
        },
        Err(e) => format!("\"refused: {}\"", e),
    };
    // the run needs the (saturated) middle width plus one cell
    println!(
        "{{\"extra_cells\": {}, \"needed_cells\": {}, \"for_program_ok\": {}, \"exec\": {}}}",
        b.extra_cells,
        (usize::MAX as u128) + 1,
        ok,
        exec
    );
}

fn jet_rows<J: simplicity::jet::Jet + PartialEq + Copy + std::fmt::Debug>(all: &[J]) -> String {
    use simplicity::{BitIter, BitWriter};
    let mut rows = vec![];
    for j in all {
        let mut v = Vec::new();
        let n = {
            let w: &mut dyn std::io::Write = &mut v;
            let mut bw = BitWriter::new(w);
            let n = j.encode(&mut bw).unwrap();
            bw.flush_all().unwrap();
            n
        };
        let code: String = (0..n).map(|i| if v[i / 8] >> (7 - i % 8) & 1 == 1 { '1' } else { '0' }).collect();
        let mut it = BitIter::from(&v[..]);
        let back = J::decode(&mut it);
        let ok = matches!(back, Ok(x) if x == *j) && it.n_total_read() == n;
        let parses = matches!(J::parse(&j.to_string()), Ok(x) if x == *j);
        rows.push(format!(
            "{{\"name\":\"{}\",\"variant\":\"{:?}\",\"code\":\"{}\",\"decodes_back\":{},\"parses_back\":{}}}",
            j, j, code, ok, parses
        ));
    }
    format!("[{}]", rows.join(","))
}

fn jets() {
    use simplicity::jet::{Bitcoin, Core, Elements};
    println!(
        "{{\"Core\":{},\"Elements\":{},\"Bitcoin\":{}}}",
        jet_rows(&Core::ALL),
        jet_rows(&Elements::ALL),
        jet_rows(&Bitcoin::ALL)
    );
}

fn jet_decode_in<J: simplicity::jet::Jet>(bits: &str) {
    use simplicity::{BitIter, BitWriter};
    let mut bytes = vec![0u8; (bits.len() + 7) / 8];
    for (i, c) in bits.chars().enumerate() {
        if c == '1' {
            bytes[i / 8] |= 1 << (7 - i % 8);
        }
    }
    // exactly bits.len() bits: wrap the byte iterator's bits with take()
    let mut it = BitIter::from(&bytes[..]);
    match J::decode(&mut it) {
        Ok(j) => {
            let mut v = Vec::new();
            let n = {
                let w: &mut dyn std::io::Write = &mut v;
                let mut bw = BitWriter::new(w);
                let n = j.encode(&mut bw).unwrap();
                bw.flush_all().unwrap();
                n
            };
            let code: String = (0..n).map(|i| if v[i / 8] >> (7 - i % 8) & 1 == 1 { '1' } else { '0' }).collect();
            println!(
                "{{\"result\":\"ok\",\"jet\":\"{}\",\"consumed\":{},\"consumed_bits\":\"{}\",\"reencoded\":\"{}\"}}",
                j,
                it.n_total_read(),
                &bits[..it.n_total_read().min(bits.len())],
                code
            );
        }
        Err(e) => println!(
            "{{\"result\":\"{}\",\"consumed\":{},\"input\":\"{}\"}}",
            match e {
                simplicity::decode::Error::EndOfStream => "EndOfStream",
                simplicity::decode::Error::InvalidJet => "InvalidJet",
                _ => "other",
            },
            it.n_total_read(),
            bits
        ),
    }
}

fn code_of<J: simplicity::jet::Jet>(j: &J) -> String {
    use simplicity::BitWriter;
    let mut v = Vec::new();
    let n = {
        let w: &mut dyn std::io::Write = &mut v;
        let mut bw = BitWriter::new(w);
        let n = j.encode(&mut bw).unwrap();
        bw.flush_all().unwrap();
        n
    };
    (0..n).map(|i| if v[i / 8] >> (7 - i % 8) & 1 == 1 { '1' } else { '0' }).collect()
}

fn jet_check_in<J: simplicity::jet::Jet + PartialEq + Copy + std::fmt::Debug>(all: &[J], variant: &str, core: bool) {
    use simplicity::jet::{Elements, Jet};
    use simplicity::BitIter;
    let j = all.iter().find(|j| format!("{:?}", j) == variant).expect("jet variant");
    let row = jet_rows(std::slice::from_ref(j));
    let mut extra = String::new();
    if core {
        // the Elements namesake: decoding 0 || core code with the Elements decoder gives a jet
        // with the same name and type names, consuming exactly those bits, and that jet's own
        // code is 0 || core code
        let code = format!("0{}", code_of(j));
        let mut bytes = vec![0u8; (code.len() + 7) / 8 + 1];
        for (i, c) in code.chars().enumerate() {
            if c == '1' {
                bytes[i / 8] |= 1 << (7 - i % 8);
            }
        }
        let mut it = BitIter::from(&bytes[..]);
        let ok = match Elements::decode(&mut it) {
            Ok(e) => {
                it.n_total_read() == code.len()
                    && e.to_string() == j.to_string()
                    && e.source_ty().0 == j.source_ty().0
                    && e.target_ty().0 == j.target_ty().0
                    && code_of(&e) == code
            }
            Err(_) => false,
        };
        extra = format!(",\"namesake_ok\":{}", ok);
    }
    println!("{}{}}}", &row[1..row.len() - 2], extra);
}

/// Programs whose extra-cell bound is saturated (>= 2^64 needed) and whose own
/// source/target widths are small but non-zero: must be refused by for_program.
fn limits_family() {
    let mut rows = vec![];
    for variant in 0..2 {
        let r = std::panic::catch_unwind(|| {
            let redeem = Context::with_context(|ctx| {
                let mut x = CN::injl(&CN::unit(&ctx));
                for _ in 0..64 {
                    x = CN::pair(&x, &x).unwrap();
                }
                let c = CN::comp(&CN::injl(&CN::unit(&ctx)), &CN::unit(&ctx)).unwrap();
                let l = CN::pair(&x, &c).unwrap();
                let prog = if variant == 0 {
                    // 1 -> 1+1
                    CN::comp(&l, &CN::injl(&CN::unit(&ctx))).unwrap()
                } else {
                    // 1 -> 2^8 x 1
                    CN::pair(&CN::const_word(&ctx, Word::u8(1)), &CN::comp(&l, &CN::unit(&ctx)).unwrap()).unwrap()
                };
                prog.finalize_unpruned().expect("finalize")
            });
            let b = redeem.bounds();
            match BitMachine::for_program(&redeem) {
                Ok(mut m) => {
                    let e = std::panic::catch_unwind(std::panic::AssertUnwindSafe(|| {
                        m.exec(&redeem, &simplicity::jet::CoreEnv::new()).is_ok()
                    }));
                    format!("{{\"extra_cells\":{},\"refused\":false,\"exec_panicked\":{}}}", b.extra_cells, e.is_err())
                }
                Err(_) => format!("{{\"extra_cells\":{},\"refused\":true,\"exec_panicked\":false}}", b.extra_cells),
            }
        });
        rows.push(match r {
            Ok(s) => s,
            Err(_) => "{\"panicked_before_exec\":true,\"refused\":false}".to_string(),
        });
    }
    // a comp chain whose frame bound exceeds the hard limit (1 048 576): must be refused
    let r = std::panic::catch_unwind(|| {
        let redeem = Context::with_context(|ctx| {
            let mut x = CN::unit(&ctx);
            for _ in 0..(1usize << 20) + 8 {
                x = CN::comp(&CN::unit(&ctx), &x).unwrap();
            }
            x.finalize_unpruned().expect("finalize")
        });
        let b = redeem.bounds();
        let refused = BitMachine::for_program(&redeem).is_err();
        format!("{{\"extra_frames\":{},\"refused\":{},\"exec_panicked\":false}}", b.extra_frames, refused)
    });
    rows.push(match r {
        Ok(s) => s,
        Err(_) => "{\"panicked_before_exec\":true,\"refused\":false}".to_string(),
    });
    println!("{{\"programs\":[{}]}}", rows.join(","));
}

// ---------------------------------------------------------------- C05: interpreter arms family
/// Big-step semantics of the core combinators on `Value`s (independent of the Bit Machine).
fn denote(n: &RedeemNode, v: &simplicity::Value) -> Result<simplicity::Value, String> {
    use simplicity::Value;
    match n.inner() {
        Inner::Iden => Ok(v.shallow_clone()),
        Inner::Unit => Ok(Value::unit()),
        Inner::InjL(t) => {
            let (_, c) = n.arrow().target.as_sum().ok_or("injl target")?;
            Ok(Value::left(denote(t, v)?, c.clone()))
        }
        Inner::InjR(t) => {
            let (b, _) = n.arrow().target.as_sum().ok_or("injr target")?;
            Ok(Value::right(b.clone(), denote(t, v)?))
        }
        Inner::Take(t) => denote(t, &v.as_product().ok_or("take input")?.0.to_value()),
        Inner::Drop(t) => denote(t, &v.as_product().ok_or("drop input")?.1.to_value()),
        Inner::Pair(s, t) => Ok(Value::product(denote(s, v)?, denote(t, v)?)),
        Inner::Comp(s, t) => denote(t, &denote(s, v)?),
        Inner::Case(..) | Inner::AssertL(..) | Inner::AssertR(..) => {
            let (sum, c) = v.as_product().ok_or("case input")?;
            if let Some(l) = sum.as_left() {
                let arg = Value::product(l.to_value(), c.to_value());
                match n.inner() {
                    Inner::Case(s, _) | Inner::AssertL(s, _) => denote(s, &arg),
                    _ => Err("assertion: hidden left side reached".into()),
                }
            } else {
                let r = sum.as_right().ok_or("case tag")?;
                let arg = Value::product(r.to_value(), c.to_value());
                match n.inner() {
                    Inner::Case(_, t) | Inner::AssertR(_, t) => denote(t, &arg),
                    _ => Err("assertion: hidden right side reached".into()),
                }
            }
        }
        Inner::Disconnect(s, t) => {
            let mut arr = [0u8; 32];
            arr.copy_from_slice(t.cmr().as_ref());
            let bc = denote(s, &Value::product(Value::u256(arr), v.shallow_clone()))?;
            let (b, c) = bc.as_product().ok_or("disconnect left output")?;
            Ok(Value::product(b.to_value(), denote(t, &c.to_value())?))
        }
        Inner::Witness(w) => Ok(w.shallow_clone()),
        Inner::Word(w) => Ok(w.as_value().shallow_clone()),
        Inner::Fail(_) => Err("fail node reached".into()),
        Inner::Jet(_) => Err("jet".into()),
    }
}

/// A family of small closed programs `comp (scribe input) P` covering every core combinator with
/// sums of unequal width, re-reads of a frame after a case/drop, nested frames and disconnect;
/// each is run by the real Bit Machine and compared with `denote` (type + compact bits).
fn arms_family() {
    use simplicity::types::Final;
    use simplicity::Value;
    let u = |n: usize| Final::two_two_n(n).unwrap();
    let inputs: Vec<(&str, Value)> = vec![
        ("(l(u1)+u8)xu4", Value::product(Value::left(Value::u1(1), u(3)), Value::u4(0b1011))),
        ("(u1+r(u8))xu4", Value::product(Value::right(u(0), Value::u8(0xa7)), Value::u4(0x5))),
        ("(l(u8)+u1)xu2", Value::product(Value::left(Value::u8(0xc3), u(0)), Value::u2(3))),
        ("(u8+r(u1))xu2", Value::product(Value::right(u(3), Value::u1(1)), Value::u2(2))),
        ("(l(u2)+u2)xu1", Value::product(Value::left(Value::u2(2), u(1)), Value::u1(1))),
        ("(l(1)+u4)x1", Value::product(Value::left(Value::unit(), u(2)), Value::unit())),
        ("(1+r(u4))xu8", Value::product(Value::right(Final::unit(), Value::u4(9)), Value::u8(0x3c))),
        ("(l(1)+u8)x(u8xu8)", Value::product(Value::left(Value::unit(), u(3)), Value::product(Value::u8(0x5a), Value::u8(0xa5)))),
        ("(1+r(u8))x(u8xu8)", Value::product(Value::right(Final::unit(), Value::u8(0x77)), Value::product(Value::u8(0x01), Value::u8(0x80)))),
        ("(l(u4)+u2)x(u2xu1)", Value::product(Value::left(Value::u4(0xd), u(1)), Value::product(Value::u2(1), Value::u1(1)))),
        ("(u4+r(u2))x(u2xu1)", Value::product(Value::right(u(2), Value::u2(2)), Value::product(Value::u2(3), Value::u1(0)))),
    ];
    type B = dyn for<'b> Fn(&Context<'b>) -> CN<'b>;
    let progs: Vec<(&str, Box<B>)> = vec![
        ("iden", Box::new(|ctx| CN::iden(ctx))),
        ("pair(iden,iden)", Box::new(|ctx| CN::pair(&CN::iden(ctx), &CN::iden(ctx)).unwrap())),
        ("pair(drop iden,take iden)", Box::new(|ctx| CN::pair(&CN::drop_(&CN::iden(ctx)), &CN::take(&CN::iden(ctx))).unwrap())),
        ("pair(injl iden,injr iden)", Box::new(|ctx| CN::pair(&CN::injl(&CN::iden(ctx)), &CN::injr(&CN::iden(ctx))).unwrap())),
        ("pair(injr(drop iden),injl(drop iden))", Box::new(|ctx| {
            CN::pair(&CN::injr(&CN::drop_(&CN::iden(ctx))), &CN::injl(&CN::drop_(&CN::iden(ctx)))).unwrap()
        })),
        ("case(drop iden,drop iden)", Box::new(|ctx| CN::case(&CN::drop_(&CN::iden(ctx)), &CN::drop_(&CN::iden(ctx))).unwrap())),
        ("pair(case(drop iden,drop iden),iden)", Box::new(|ctx| {
            let c = CN::case(&CN::drop_(&CN::iden(ctx)), &CN::drop_(&CN::iden(ctx))).unwrap();
            CN::pair(&c, &CN::iden(ctx)).unwrap()
        })),
        ("pair(case(swap-sum),drop iden)", Box::new(|ctx| {
            // s : A x C -> (B + A) x C ; t : B x C -> (B + A) x C
            let s = CN::pair(&CN::injr(&CN::take(&CN::iden(ctx))), &CN::drop_(&CN::iden(ctx))).unwrap();
            let t = CN::pair(&CN::injl(&CN::take(&CN::iden(ctx))), &CN::drop_(&CN::iden(ctx))).unwrap();
            CN::pair(&CN::case(&s, &t).unwrap(), &CN::drop_(&CN::iden(ctx))).unwrap()
        })),
        ("pair(case(drop(take iden),drop(take iden)),drop(take iden))", Box::new(|ctx| {
            let l = CN::drop_(&CN::take(&CN::iden(ctx)));
            let r = CN::drop_(&CN::take(&CN::iden(ctx)));
            CN::pair(&CN::case(&l, &r).unwrap(), &CN::drop_(&CN::take(&CN::iden(ctx)))).unwrap()
        })),
        ("pair(case(drop(drop iden),drop(drop iden)),pair(drop(drop iden),take iden))", Box::new(|ctx| {
            let l = CN::drop_(&CN::drop_(&CN::iden(ctx)));
            let r = CN::drop_(&CN::drop_(&CN::iden(ctx)));
            let rest = CN::pair(&CN::drop_(&CN::drop_(&CN::iden(ctx))), &CN::take(&CN::iden(ctx))).unwrap();
            CN::pair(&CN::case(&l, &r).unwrap(), &rest).unwrap()
        })),
        ("comp(pair(iden,iden),pair(drop(drop iden),take(take iden)))", Box::new(|ctx| {
            let d = CN::pair(&CN::iden(ctx), &CN::iden(ctx)).unwrap();
            let p = CN::pair(&CN::drop_(&CN::drop_(&CN::iden(ctx))), &CN::take(&CN::take(&CN::iden(ctx)))).unwrap();
            CN::comp(&d, &p).unwrap()
        })),
        ("comp(drop iden,pair(iden,comp(iden,iden)))", Box::new(|ctx| {
            let inner = CN::comp(&CN::iden(ctx), &CN::iden(ctx)).unwrap();
            CN::comp(&CN::drop_(&CN::iden(ctx)), &CN::pair(&CN::iden(ctx), &inner).unwrap()).unwrap()
        })),
        ("pair(disconnect(iden,iden),take iden)", Box::new(|ctx| {
            let d = CN::disconnect(&CN::iden(ctx), &Some(CN::iden(ctx))).unwrap();
            CN::pair(&d, &CN::take(&CN::iden(ctx))).unwrap()
        })),
        ("pair(drop iden,disconnect(pair(drop iden,take iden),drop iden))", Box::new(|ctx| {
            // left : 2^256 x A -> A x 2^256 ; right : 2^256 -> ... needs a product: use iden instead
            let left = CN::pair(&CN::drop_(&CN::iden(ctx)), &CN::take(&CN::iden(ctx))).unwrap();
            let d = CN::disconnect(&left, &Some(CN::iden(ctx))).unwrap();
            CN::pair(&CN::drop_(&CN::iden(ctx)), &d).unwrap()
        })),
        ("disconnect(iden,pair(iden,iden))", Box::new(|ctx| {
            // right child widens: C -> C x C
            let r = CN::pair(&CN::iden(ctx), &CN::iden(ctx)).unwrap();
            CN::disconnect(&CN::iden(ctx), &Some(r)).unwrap()
        })),
        ("disconnect(iden,comp(pair(iden,iden),drop(drop iden)))", Box::new(|ctx| {
            // right child narrows (X x Y -> Y) and allocates a frame of its own before it has read all of its input
            let r = CN::comp(&CN::pair(&CN::iden(ctx), &CN::iden(ctx)).unwrap(), &CN::drop_(&CN::drop_(&CN::iden(ctx)))).unwrap();
            CN::disconnect(&CN::iden(ctx), &Some(r)).unwrap()
        })),
        ("comp(pair(drop iden,take iden),pair(comp(drop iden,iden),take iden))", Box::new(|ctx| {
            // a Back entry directly followed by comp's MoveWriteFrameToRead, and the enclosing frame read again
            let swap = CN::pair(&CN::drop_(&CN::iden(ctx)), &CN::take(&CN::iden(ctx))).unwrap();
            let inner = CN::comp(&CN::drop_(&CN::iden(ctx)), &CN::iden(ctx)).unwrap();
            CN::comp(&swap, &CN::pair(&inner, &CN::take(&CN::iden(ctx))).unwrap()).unwrap()
        })),
        ("pair(assertl(drop iden),iden) / assertr", Box::new(|ctx| {
            let c = CN::assertl(&CN::drop_(&CN::iden(ctx)), simplicity::Cmr::unit()).unwrap();
            CN::pair(&c, &CN::iden(ctx)).unwrap()
        })),
        ("pair(assertr(drop iden),iden)", Box::new(|ctx| {
            let c = CN::assertr(simplicity::Cmr::unit(), &CN::drop_(&CN::iden(ctx))).unwrap();
            CN::pair(&c, &CN::iden(ctx)).unwrap()
        })),
        ("pair(take(injl iden),comp(unit,const u8))", Box::new(|ctx| {
            let w = CN::comp(&CN::unit(ctx), &CN::const_word(ctx, Word::u8(0x5a))).unwrap();
            CN::pair(&CN::take(&CN::injl(&CN::iden(ctx))), &w).unwrap()
        })),
    ];
    let mut out: Vec<String> = vec![];
    for (iname, input) in &inputs {
        for (pname, build) in &progs {
            let name = format!("{} on {}", pname, iname);
            let r = std::panic::catch_unwind(std::panic::AssertUnwindSafe(|| -> Result<(bool, String), String> {
                let redeem = Context::with_context(|ctx| {
                    let p = build(&ctx);
                    // pin P's source type to the input's type: scribe alone leaves the summand that
                    // is not taken free (it would be inferred as unit and the sum would lose its padding)
                    let ty = simplicity::types::Type::complete(&ctx, Arc::new(input.ty().clone()));
                    ctx.unify(&p.arrow().source, &ty, "pin source type").map_err(|e| e.to_string())?;
                    let full = CN::comp(&CN::scribe(&ctx, input), &p).map_err(|e| e.to_string())?;
                    full.finalize_unpruned().map_err(|e| e.to_string())
                })?;
                let want = denote(&redeem, &Value::unit());
                let mut mac = BitMachine::for_program(&redeem).map_err(|e| e.to_string())?;
                let got = mac.exec(&redeem, &simplicity::jet::CoreEnv::new());
                Ok(match (want, got) {
                    (Ok(w), Ok(g)) => {
                        let same = w.is_of_type(g.ty()) && w.iter_compact().collect::<Vec<bool>>() == g.iter_compact().collect::<Vec<bool>>();
                        (same, format!("want {} got {}", w, g))
                    }
                    (Err(e), Err(g)) => (true, format!("both fail: {} / {}", e, g)),
                    (Ok(w), Err(g)) => (false, format!("want {} got error {}", w, g)),
                    (Err(e), Ok(g)) => (false, format!("want failure ({}) got {}", e, g)),
                })
            }));
            match r {
                Ok(Ok((agree, detail))) => out.push(format!("{{\"name\":\"{}\",\"built\":true,\"agree\":{},\"detail\":\"{}\"}}", name, agree, detail.replace('"', "'"))),
                Ok(Err(_e)) => out.push(format!("{{\"name\":\"{}\",\"built\":false,\"agree\":true,\"detail\":\"ill-typed for this input\"}}", name)),
                Err(_) => out.push(format!("{{\"name\":\"{}\",\"built\":true,\"agree\":false,\"detail\":\"panic\"}}", name)),
            }
        }
    }
    println!("{{\"programs\":[{}]}}", out.join(","));
}

fn main() {
    let args: Vec<String> = std::env::args().skip(1).collect();
    match args[0].as_str() {
        "budget" => budget(&args[1..]),
        "convert" => convert(&args[1..]),
        "peaks" => peaks(),
        "arms_family" => arms_family(),
        "limits_family" => limits_family(),
        "peaks_with_input" => peaks_with_input(),
        "jets" => jets(),
        "jet_decode" => match args[1].as_str() {
            "Core" => jet_decode_in::<simplicity::jet::Core>(&args[2]),
            "Elements" => jet_decode_in::<simplicity::jet::Elements>(&args[2]),
            _ => jet_decode_in::<simplicity::jet::Bitcoin>(&args[2]),
        },
        "jet_check" => match args[1].as_str() {
            "Core" => jet_check_in(&simplicity::jet::Core::ALL, &args[2], true),
            "Elements" => jet_check_in(&simplicity::jet::Elements::ALL, &args[2], false),
            _ => jet_check_in(&simplicity::jet::Bitcoin::ALL, &args[2], false),
        },
        "bounds_overflow" => bounds_overflow(&args[1]),
        _ => {
            eprintln!("usage: vreplay budget <cost> <item sizes..> | convert c1 c2 w1 w2 wu");
            std::process::exit(2)
        }
    }
}
